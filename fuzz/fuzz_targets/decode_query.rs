//! libFuzzer target for C05: the same "decode untrusted bytes, then query everything" body the
//! harness monitor runs (harness/src/props/c05_core.rs is included verbatim).
#![no_main]
#![allow(dead_code)]

use libfuzzer_sys::fuzz_target;

#[path = "../../harness/src/props/c05_core.rs"]
mod c05_core;

fuzz_target!(|data: &[u8]| {
    if data.len() > 16 * 1024 {
        return;
    }
    let mut st = c05_core::Stats { ops: 0, ok_kind: None, err_after_json: false, post_actions: 0 };
    if let Err(e) = c05_core::drive(data, &mut st) {
        panic!("C05 non-panic violation: {e}");
    }
});
