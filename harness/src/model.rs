//! Abstract models of maps and seeded generators; realisation of a model as a real map
//! through the crate's public constructors.

use std::collections::BTreeSet;
use std::sync::Arc;

use serde_json::{json, Value};
use sourcemap::{RawToken, SourceMap, SourceMapBuilder};

use crate::reference::json::{jarr, jobj, jopt_str, jstr};
use crate::reference::mappings::{self as refmap, RefSrc, RefTok};
use crate::rng::Rng;

#[derive(Debug, Clone, Copy, PartialEq, Eq, PartialOrd, Ord, Hash)]
pub struct MSrc {
    pub id: u32,
    pub line: u32,
    pub col: u32,
    pub name: Option<u32>,
}

#[derive(Debug, Clone, Copy, PartialEq, Eq, PartialOrd, Ord, Hash)]
pub struct MTok {
    pub dl: u32,
    pub dc: u32,
    pub src: Option<MSrc>,
    pub range: bool,
}

#[derive(Debug, Clone, PartialEq, Eq, Default)]
pub struct MapModel {
    pub file: Option<String>,
    pub root: Option<String>,
    pub sources: Vec<String>,
    /// empty = "no contents at all"; otherwise same length as `sources`
    pub contents: Vec<Option<String>>,
    pub names: Vec<String>,
    pub tokens: Vec<MTok>,
    pub debug_id: Option<String>,
    pub ignore: BTreeSet<u32>,
}

pub const SOURCE_POOL: &[&str] = &[
    "a.js", "b.js", "src/a.js", "src/é.js", "日本.ts", "😀.js", "", "a.js", "/abs/x.js", "/abs/y/z.js",
    "http://h/x.js", "https://h/y.js", "https:", "webpack:///./x", "C:\\x", "q\"uote.js", "back\\slash.js",
    "new\nline.js", "nul\u{0}.js", "</script>", "/", "http:", "./rel.js", "../up.js", "/abs/x.js",
    // relative names that merely look like the absolute prefixes
    "httpClient.ts", "https-proxy/agent.js", "http", "https", "http/index.js", "htt", "h", "//cdn/x.js",
    // an ASCII letter followed by a 3- or 4-byte character; strings that also occur in the name pool
    "v日本/util.js", "x😀.js", "k€/two.js", "C:/w/x.js", "c:\\w\\y.js", "foo", "$", "a",
];

pub const NAME_POOL: &[&str] = &[
    "a", "b", "foo", "bar", "", "é", "日本", "😀", "\"", "\\", "\n", "\u{0}", "</script>", "foo", "$", "_x",
    "constructor", "__proto__", "0", "12",
];

pub const ROOT_POOL: &[&str] = &["x", "x/", "webpack:///", "/r", "http://h/", "/", "r//", "é"];

pub const CONTENT_POOL: &[&str] = &[
    "", "a", "function a(){}\n", "line1\nline2\r\nline3\rline4", "é😀\n\"quoted\"\\", "\u{0}", "</script>",
];

pub const FILE_POOL: &[&str] = &["out.js", "", "é.js", "a\"b", "dir/out.min.js"];

#[derive(Clone, Debug)]
pub struct GenCfg {
    pub max_lines: u32,
    pub max_tokens: usize,
    pub max_col: u32,
    pub max_sources: usize,
    pub max_names: usize,
    pub allow_range: bool,
    pub allow_sourceless: bool,
    /// allow extreme numbers (2^31, 2^32-1) in positions
    pub big_numbers: bool,
    /// allow extreme generated *line* numbers too (never for maps that get serialised)
    pub big_lines: bool,
    /// probability (percent) that a token reuses the previous token's generated position
    pub dup_pos_pct: u64,
    /// probability (percent) that a token is an exact copy of the previous one
    pub exact_dup_pct: u64,
    /// probability (percent) that a token is a copy of the previous one with exactly one field
    /// changed (name id - preferably to another slot holding the same string -, source id,
    /// original line or column, or named <-> unnamed)
    pub near_dup_pct: u64,
    /// all strings in sources / names distinct (needed for builder-by-string construction)
    pub unique_strings: bool,
    pub allow_root: bool,
    pub allow_optional: bool,
    /// every source and name is referenced by at least one token
    pub all_referenced: bool,
}

impl Default for GenCfg {
    fn default() -> Self {
        GenCfg {
            max_lines: 6,
            max_tokens: 30,
            max_col: 60,
            max_sources: 4,
            max_names: 4,
            allow_range: false,
            allow_sourceless: true,
            big_numbers: false,
            big_lines: false,
            dup_pos_pct: 10,
            exact_dup_pct: 5,
            near_dup_pct: 6,
            unique_strings: false,
            allow_root: true,
            allow_optional: true,
            all_referenced: false,
        }
    }
}

pub fn gen_debug_id(rng: &mut Rng) -> String {
    let a = rng.next_u64();
    let b = rng.next_u64();
    // version/variant nibbles left random on purpose: debugid accepts any uuid
    format!(
        "{:08x}-{:04x}-{:04x}-{:04x}-{:012x}",
        (a >> 32) as u32,
        (a >> 16) as u16,
        a as u16,
        (b >> 48) as u16,
        b & 0xffff_ffff_ffff
    )
}

fn pick_strings(rng: &mut Rng, pool: &[&str], n: usize, unique: bool) -> Vec<String> {
    let mut out: Vec<String> = vec![];
    let mut guard = 0;
    while out.len() < n {
        let s = rng.pick(pool).to_string();
        guard += 1;
        if unique && out.contains(&s) {
            if guard > 200 {
                out.push(format!("u{}", out.len()));
            }
            continue;
        }
        out.push(s);
    }
    out
}

pub fn gen_num(rng: &mut Rng, small_max: u32, big: bool) -> u32 {
    if big && rng.chance(1, 12) {
        *rng.pick(&[0u32, 1, 65535, 65536, (1 << 31) - 1, 1 << 31, u32::MAX - 1, u32::MAX])
    } else if rng.chance(1, 8) {
        rng.below(u64::from(small_max) * 20 + 1) as u32
    } else {
        rng.below(u64::from(small_max) + 1) as u32
    }
}

pub fn gen_map(rng: &mut Rng, cfg: &GenCfg) -> MapModel {
    let n_sources = rng.range_usize(if cfg.allow_sourceless { 0 } else { 1 }, cfg.max_sources);
    let n_names = rng.range_usize(0, cfg.max_names);
    let sources = pick_strings(rng, SOURCE_POOL, n_sources, cfg.unique_strings);
    let names = pick_strings(rng, NAME_POOL, n_names, cfg.unique_strings);
    let n_tokens = if rng.chance(1, 20) { rng.range_usize(0, 1) } else { rng.range_usize(0, cfg.max_tokens) };
    let mut tokens: Vec<MTok> = vec![];
    let lines = rng.range(1, u64::from(cfg.max_lines)) as u32;
    let line_gap = if rng.chance(1, 6) { rng.range(1, 50) as u32 } else { 1 };
    for _ in 0..n_tokens {
        if let Some(prev) = tokens.last().copied() {
            if rng.chance(cfg.exact_dup_pct, 100) {
                tokens.push(prev);
                continue;
            }
            if let (true, Some(ps)) = (rng.chance(cfg.near_dup_pct, 100), prev.src) {
                let mut t = prev;
                let mut s = ps;
                let same_string = |pool: &[String], cur: u32, rng: &mut Rng| -> Option<u32> {
                    let twins: Vec<u32> = (0..pool.len() as u32).filter(|&i| i != cur && pool[i as usize] == pool[cur as usize]).collect();
                    if twins.is_empty() { None } else { Some(twins[rng.usize_below(twins.len())]) }
                };
                match rng.below(5) {
                    0 if n_names > 0 => {
                        s.name = match s.name {
                            Some(cur) => same_string(&names, cur, rng).or_else(|| if rng.bool() { None } else { Some(rng.below(n_names as u64) as u32) }),
                            None => Some(rng.below(n_names as u64) as u32),
                        }
                    }
                    1 => s.id = same_string(&sources, s.id, rng).unwrap_or_else(|| rng.below(n_sources as u64) as u32),
                    2 => s.line = s.line.wrapping_add(1),
                    3 => s.col = s.col.wrapping_add(1),
                    _ => s.name = None,
                }
                t.src = Some(s);
                tokens.push(t);
                continue;
            }
        }
        let (dl, dc) = match tokens.last() {
            Some(p) if rng.chance(cfg.dup_pos_pct, 100) => (p.dl, p.dc),
            _ => {
                let dl = if cfg.big_lines && rng.chance(1, 40) {
                    gen_num(rng, cfg.max_lines, true)
                } else {
                    rng.below(u64::from(lines)) as u32 * line_gap
                };
                (dl, gen_num(rng, cfg.max_col, cfg.big_numbers))
            }
        };
        let src = if n_sources == 0 || (cfg.allow_sourceless && rng.chance(1, 6)) {
            None
        } else {
            Some(MSrc {
                id: rng.below(n_sources as u64) as u32,
                line: gen_num(rng, 40, cfg.big_numbers),
                col: gen_num(rng, 80, cfg.big_numbers),
                name: if n_names > 0 && rng.chance(1, 2) { Some(rng.below(n_names as u64) as u32) } else { None },
            })
        };
        let range = cfg.allow_range && rng.chance(1, 4);
        tokens.push(MTok { dl, dc, src, range });
    }
    let mut m = MapModel { sources, names, tokens, ..Default::default() };
    if cfg.all_referenced {
        drop_unreferenced(&mut m);
    }
    if cfg.allow_optional {
        if rng.chance(1, 2) {
            m.file = Some(rng.pick(FILE_POOL).to_string());
        }
        if cfg.allow_root && rng.chance(1, 3) {
            m.root = Some(if rng.chance(1, 8) { String::new() } else { rng.pick(ROOT_POOL).to_string() });
        }
        if rng.chance(1, 2) && !m.sources.is_empty() {
            m.contents = (0..m.sources.len())
                .map(|_| if rng.chance(2, 3) { Some(rng.pick(CONTENT_POOL).to_string()) } else { None })
                .collect();
        }
        if rng.chance(1, 3) {
            m.debug_id = Some(gen_debug_id(rng));
        }
        if rng.chance(1, 3) {
            for i in 0..m.sources.len() {
                if rng.chance(1, 3) {
                    m.ignore.insert(i as u32);
                }
            }
        }
    }
    m
}

/// Removes sources / names no token refers to and renumbers.
pub fn drop_unreferenced(m: &mut MapModel) {
    let used_s: BTreeSet<u32> = m.tokens.iter().filter_map(|t| t.src.map(|s| s.id)).collect();
    let used_n: BTreeSet<u32> = m.tokens.iter().filter_map(|t| t.src.and_then(|s| s.name)).collect();
    let smap: Vec<Option<u32>> = {
        let mut next = 0;
        (0..m.sources.len() as u32)
            .map(|i| {
                if used_s.contains(&i) {
                    next += 1;
                    Some(next - 1)
                } else {
                    None
                }
            })
            .collect()
    };
    let nmap: Vec<Option<u32>> = {
        let mut next = 0;
        (0..m.names.len() as u32)
            .map(|i| {
                if used_n.contains(&i) {
                    next += 1;
                    Some(next - 1)
                } else {
                    None
                }
            })
            .collect()
    };
    m.sources = m.sources.iter().enumerate().filter(|(i, _)| smap[*i].is_some()).map(|x| x.1.clone()).collect();
    m.names = m.names.iter().enumerate().filter(|(i, _)| nmap[*i].is_some()).map(|x| x.1.clone()).collect();
    if !m.contents.is_empty() {
        m.contents = m.contents.iter().enumerate().filter(|(i, _)| smap[*i].is_some()).map(|x| x.1.clone()).collect();
    }
    m.ignore = m.ignore.iter().filter_map(|i| smap[*i as usize]).collect();
    for t in m.tokens.iter_mut() {
        if let Some(s) = t.src.as_mut() {
            s.id = smap[s.id as usize].unwrap();
            s.name = s.name.map(|n| nmap[n as usize].unwrap());
        }
    }
}

impl MTok {
    pub fn raw(&self, rng: Option<&mut Rng>) -> RawToken {
        // for sourceless tokens the original position / name fields are "don't care": fill
        // them with arbitrary values when an rng is given, to make sure nothing depends on them
        let (junk_l, junk_c) = match rng {
            Some(r) => (r.below(5) as u32, r.below(5) as u32),
            None => (0, 0),
        };
        match self.src {
            Some(s) => RawToken {
                dst_line: self.dl,
                dst_col: self.dc,
                src_line: s.line,
                src_col: s.col,
                src_id: s.id,
                name_id: s.name.unwrap_or(!0),
                is_range: self.range,
            },
            None => RawToken {
                dst_line: self.dl,
                dst_col: self.dc,
                src_line: junk_l,
                src_col: junk_c,
                src_id: !0,
                name_id: !0,
                is_range: self.range,
            },
        }
    }

    pub fn json(&self) -> Value {
        match self.src {
            Some(s) => json!([self.dl, self.dc, s.id, s.line, s.col, s.name, self.range]),
            None => json!([self.dl, self.dc, null, null, null, null, self.range]),
        }
    }
}

impl MapModel {
    pub fn json(&self) -> Value {
        json!({
            "file": self.file, "root": self.root, "sources": self.sources, "contents": self.contents,
            "names": self.names, "debug_id": self.debug_id, "ignore": self.ignore.iter().collect::<Vec<_>>(),
            "tokens": self.tokens.iter().map(MTok::json).collect::<Vec<_>>(),
        })
    }

    /// tokens stably sorted by generated position
    pub fn sorted_tokens(&self) -> Vec<MTok> {
        let mut t = self.tokens.clone();
        t.sort_by_key(|t| (t.dl, t.dc));
        t
    }

    /// The documented join rule (root minus one trailing '/', then '/', then name) unless the
    /// root is absent/empty or the name is absolute ('/', 'http:', 'https:').
    pub fn joined_source(&self, i: usize) -> String {
        join_root(self.root.as_deref(), &self.sources[i])
    }

    pub fn parse_debug_id(&self) -> Option<debugid::DebugId> {
        self.debug_id.as_ref().map(|s| s.parse().expect("generated debug id parses"))
    }

    /// Construction (b): `SourceMap::new` with tokens in shuffled order, then setters.
    pub fn build_raw(&self, rng: &mut Rng, shuffle: bool) -> SourceMap {
        let mut toks: Vec<RawToken> = self.tokens.iter().map(|t| t.raw(Some(rng))).collect();
        if shuffle {
            // shuffle but keep the relative order of equal positions (their order is observable)
            let mut idx: Vec<usize> = (0..toks.len()).collect();
            rng.shuffle(&mut idx);
            idx.sort_by_key(|&i| {
                // group equal positions: stable order inside a group is restored below
                (toks[i].dst_line, toks[i].dst_col, i)
            });
            // idx is now position-sorted with ties in original order; rotate lines randomly instead
            // to get a genuinely unsorted input while ties stay in relative order:
            let mut groups: Vec<Vec<usize>> = vec![];
            for i in idx {
                match groups.last_mut() {
                    Some(g) if (toks[g[0]].dst_line, toks[g[0]].dst_col) == (toks[i].dst_line, toks[i].dst_col) => g.push(i),
                    _ => groups.push(vec![i]),
                }
            }
            rng.shuffle(&mut groups);
            let order: Vec<usize> = groups.into_iter().flatten().collect();
            toks = order.into_iter().map(|i| toks[i]).collect();
        }
        let contents = if self.contents.is_empty() {
            None
        } else {
            Some(self.contents.iter().map(|c| c.as_ref().map(|s| Arc::<str>::from(s.as_str()))).collect())
        };
        let mut sm = SourceMap::new(
            self.file.as_ref().map(|s| Arc::<str>::from(s.as_str())),
            toks,
            self.names.iter().map(|s| Arc::<str>::from(s.as_str())).collect(),
            self.sources.iter().map(|s| Arc::<str>::from(s.as_str())).collect(),
            contents,
        );
        sm.set_source_root(self.root.clone());
        sm.set_debug_id(self.parse_debug_id());
        for &i in &self.ignore {
            sm.add_to_ignore_list(i);
        }
        sm
    }

    /// Construction (a): `SourceMapBuilder`, strings registered up front in model order
    /// (requires unique strings), tokens added by id in shuffled group order.
    pub fn build_builder(&self, rng: &mut Rng) -> SourceMap {
        let mut b = SourceMapBuilder::new(self.file.as_deref());
        for s in &self.sources {
            b.add_source(s);
        }
        for n in &self.names {
            b.add_name(n);
        }
        for (i, c) in self.contents.iter().enumerate() {
            b.set_source_contents(i as u32, c.as_deref());
        }
        let mut order: Vec<usize> = (0..self.tokens.len()).collect();
        if rng.bool() {
            // shuffle groups of equal positions, ties keep relative order
            let mut groups: Vec<Vec<usize>> = vec![];
            let mut sorted = order.clone();
            sorted.sort_by_key(|&i| (self.tokens[i].dl, self.tokens[i].dc, i));
            for i in sorted {
                match groups.last_mut() {
                    Some(g) if (self.tokens[g[0]].dl, self.tokens[g[0]].dc) == (self.tokens[i].dl, self.tokens[i].dc) => g.push(i),
                    _ => groups.push(vec![i]),
                }
            }
            rng.shuffle(&mut groups);
            order = groups.into_iter().flatten().collect();
        }
        for i in order {
            let t = &self.tokens[i];
            match t.src {
                Some(s) => {
                    if rng.bool() {
                        b.add_raw(t.dl, t.dc, s.line, s.col, Some(s.id), s.name, t.range);
                    } else {
                        b.add(
                            t.dl,
                            t.dc,
                            s.line,
                            s.col,
                            Some(&self.sources[s.id as usize]),
                            s.name.map(|n| self.names[n as usize].as_str()),
                            t.range,
                        );
                    }
                }
                None => {
                    b.add_raw(t.dl, t.dc, rng.below(3) as u32, rng.below(3) as u32, None, None, t.range);
                }
            }
        }
        b.set_source_root(self.root.clone());
        b.set_debug_id(self.parse_debug_id());
        for &i in &self.ignore {
            b.add_to_ignore_list(i);
        }
        b.into_sourcemap()
    }

    pub fn ref_tokens_sorted(&self) -> Vec<RefTok> {
        self.sorted_tokens().iter().map(mtok_to_ref).collect()
    }

    /// Construction (c): reference-encoded JSON text (plain presentation, canonical key order
    /// unless `rng` permutes it). Range flags are written through the reference rmi codec.
    pub fn to_json_text(&self, rng: Option<&mut Rng>) -> String {
        let mut pairs = self.json_pairs();
        if let Some(r) = rng {
            r.shuffle(&mut pairs);
        }
        jobj(&pairs)
    }

    pub fn json_pairs(&self) -> Vec<(String, String)> {
        let toks = self.sorted_tokens();
        let reft: Vec<RefTok> = toks.iter().map(mtok_to_ref).collect();
        let lines = refmap::lines_of(&reft);
        let mappings = refmap::encode(&lines);
        let mut pairs: Vec<(String, String)> = vec![
            ("version".into(), "3".into()),
            ("sources".into(), jarr(self.sources.iter().map(|s| jstr(s)))),
            ("names".into(), jarr(self.names.iter().map(|s| jstr(s)))),
            ("mappings".into(), jstr(&mappings)),
        ];
        // range flags: index of token within its line
        let n_lines = lines.len();
        let mut flags: Vec<Vec<usize>> = vec![vec![]; n_lines];
        let mut per_line = vec![0usize; n_lines];
        for t in &toks {
            let i = per_line[t.dl as usize];
            per_line[t.dl as usize] += 1;
            if t.range {
                flags[t.dl as usize].push(i);
            }
        }
        if let Some(r) = crate::reference::rmi::encode(&flags) {
            pairs.push(("rangeMappings".into(), jstr(&r)));
        }
        if let Some(f) = &self.file {
            pairs.push(("file".into(), jstr(f)));
        }
        if let Some(r) = &self.root {
            pairs.push(("sourceRoot".into(), jstr(r)));
        }
        if !self.contents.is_empty() {
            pairs.push(("sourcesContent".into(), jarr(self.contents.iter().map(jopt_str))));
        }
        if let Some(d) = &self.debug_id {
            pairs.push(("debug_id".into(), jstr(d)));
        }
        if !self.ignore.is_empty() {
            pairs.push(("ignoreList".into(), jarr(self.ignore.iter().map(|i| i.to_string()))));
        }
        pairs
    }
}

pub fn mtok_to_ref(t: &MTok) -> RefTok {
    RefTok {
        dl: i128::from(t.dl),
        dc: i128::from(t.dc),
        src: t.src.map(|s| RefSrc {
            id: i128::from(s.id),
            line: i128::from(s.line),
            col: i128::from(s.col),
            name: s.name.map(i128::from),
        }),
    }
}

pub fn join_root(root: Option<&str>, name: &str) -> String {
    match root {
        None => name.to_string(),
        Some("") => name.to_string(),
        Some(r) => {
            let absolute = name.starts_with('/') || name.starts_with("http:") || name.starts_with("https:");
            if absolute {
                name.to_string()
            } else {
                let r = r.strip_suffix('/').unwrap_or(r);
                format!("{r}/{name}")
            }
        }
    }
}

// ---------------------------------------------------------------------------------------
// Hermes / Metro models

#[derive(Debug, Clone, PartialEq, Eq)]
pub struct FnMap {
    pub names: Vec<String>,
    /// (line starting at 1, column, name index), strictly increasing by (line, column)
    pub entries: Vec<(u32, u32, u32)>,
    /// when set, this text is written as `mappings` instead of the encoded entries
    /// (used for unparsable function maps)
    pub raw_override: Option<String>,
    pub style: (bool, bool, bool),
}

#[derive(Debug, Clone, PartialEq, Eq)]
pub enum FbSource {
    Null,
    Metas(Vec<FnMap>),
}

#[derive(Debug, Clone, PartialEq, Eq)]
pub struct HermesModel {
    pub map: MapModel,
    pub fb: Vec<FbSource>,
}

pub const FN_NAME_POOL: &[&str] = &["<global>", "f", "g", "Foo#bar", "é", "", "anonymous", "x.y", "日本"];

pub fn gen_fnmap(rng: &mut Rng, max_line0: u32, max_col: u32) -> FnMap {
    let n_names = rng.range_usize(0, 5);
    let names: Vec<String> = (0..n_names).map(|_| rng.pick(FN_NAME_POOL).to_string()).collect();
    let n_entries = rng.range_usize(0, 14);
    let mut entries = vec![];
    // one function map in six starts far down the file (large line numbers / line deltas)
    let mut l = if rng.chance(1, 6) { *rng.pick(&[4_000u32, 5_000, 70_000, 1 << 20]) + rng.below(50) as u32 } else { 1 + rng.below(2) as u32 };
    let mut c = rng.below(4) as u32;
    for _ in 0..n_entries {
        let name_idx = if n_names > 0 && !rng.chance(1, 10) { rng.below(n_names as u64) as u32 } else { rng.below(8) as u32 };
        entries.push((l, c, name_idx));
        if rng.chance(1, 3) {
            l += rng.range(1, u64::from(max_line0 / 3 + 1)) as u32;
            c = rng.below(u64::from(max_col / 2 + 1)) as u32;
        } else {
            c += rng.range(1, u64::from(max_col / 4 + 1)) as u32;
        }
    }
    let raw_override = if rng.chance(1, 12) {
        Some(rng.pick(&["g", "AAg", "AAA,g", "A!", "AA;;é", "gggggggggggggggA", "AAA;!"]).to_string())
    } else {
        None
    };
    FnMap { names, entries, raw_override, style: (rng.bool(), rng.bool(), rng.chance(3, 4)) }
}

pub fn gen_hermes(rng: &mut Rng, cfg: &GenCfg) -> HermesModel {
    let map = gen_map(rng, cfg);
    let fb = (0..map.sources.len())
        .map(|_| match rng.below(10) {
            0 => FbSource::Null,
            1 => FbSource::Metas(vec![]),
            2 => FbSource::Metas(vec![gen_fnmap(rng, 40, 80), gen_fnmap(rng, 40, 80)]),
            _ => FbSource::Metas(vec![gen_fnmap(rng, 40, 80)]),
        })
        .collect();
    HermesModel { map, fb }
}

impl FnMap {
    pub fn mappings_text(&self) -> String {
        match &self.raw_override {
            Some(t) => t.clone(),
            None => crate::reference::metro::encode(
                &self.entries,
                &crate::reference::metro::EncodeStyle {
                    omit_trailing_zero: self.style.0,
                    leading_separator: self.style.1,
                    group_per_line: self.style.2,
                },
            ),
        }
    }

    pub fn usable(&self) -> bool {
        crate::reference::metro::decode(&self.mappings_text()).is_some()
    }

    pub fn json_text(&self) -> String {
        jobj(&[
            ("names".into(), jarr(self.names.iter().map(|s| jstr(s)))),
            ("mappings".into(), jstr(&self.mappings_text())),
        ])
    }
}

impl HermesModel {
    pub fn fb_json_text(&self) -> String {
        jarr(self.fb.iter().map(|f| match f {
            FbSource::Null => "null".to_string(),
            FbSource::Metas(ms) => jarr(ms.iter().map(FnMap::json_text)),
        }))
    }

    pub fn to_json_text(&self, rng: Option<&mut Rng>) -> String {
        let mut pairs = self.map.json_pairs();
        pairs.push(("x_facebook_sources".into(), self.fb_json_text()));
        if let Some(r) = rng {
            r.shuffle(&mut pairs);
        }
        jobj(&pairs)
    }

    /// The scope the reference reading assigns to a token with the given source id and
    /// original position.
    pub fn expected_scope(&self, src_id: u32, src_line: u32, src_col: u32) -> Option<String> {
        match self.fb.get(src_id as usize)? {
            FbSource::Null => None,
            FbSource::Metas(ms) => {
                let f = ms.first()?;
                match &f.raw_override {
                    Some(t) => {
                        let d = crate::reference::metro::decode(t)?;
                        // parsable override: look up in the decoded entries
                        let key = (i128::from(src_line) + 1, i128::from(src_col));
                        let mut best: Option<(i128, i128, i128)> = None;
                        for e in d {
                            if (e.0, e.1) <= key && best.map_or(true, |b| (b.0, b.1) < (e.0, e.1)) {
                                best = Some(e);
                            }
                        }
                        let e = best?;
                        if e.2 < 0 {
                            return None;
                        }
                        f.names.get(e.2 as usize).cloned()
                    }
                    None => crate::reference::metro::lookup(&f.names, &f.entries, src_line, src_col).map(str::to_string),
                }
            }
        }
    }

    pub fn json(&self) -> Value {
        json!({"map": self.map.json(), "x_facebook_sources": serde_json::from_str::<Value>(&self.fb_json_text()).unwrap()})
    }
}

// ---------------------------------------------------------------------------------------
// Index models

#[derive(Debug, Clone, PartialEq, Eq)]
pub enum SecMap {
    Regular(MapModel),
    Hermes(HermesModel),
    Index(IndexModel),
}

#[derive(Debug, Clone, PartialEq, Eq)]
pub struct SectionModel {
    pub offset: (u32, u32),
    pub url: Option<String>,
    pub map: Option<SecMap>,
}

#[derive(Debug, Clone, PartialEq, Eq, Default)]
pub struct IndexModel {
    pub file: Option<String>,
    pub sections: Vec<SectionModel>,
}

impl SecMap {
    pub fn to_json_text(&self, rng: &mut Rng) -> String {
        match self {
            SecMap::Regular(m) => m.to_json_text(Some(rng)),
            SecMap::Hermes(h) => h.to_json_text(Some(rng)),
            SecMap::Index(i) => i.to_json_text(rng),
        }
    }

    /// Realises the model as a `DecodedMap` through constructors (regular), decoding
    /// (Hermes has no public constructor) or `SourceMapIndex::new`.
    pub fn build(&self, rng: &mut Rng) -> sourcemap::DecodedMap {
        match self {
            SecMap::Regular(m) => sourcemap::DecodedMap::Regular(m.build_raw(rng, true)),
            SecMap::Hermes(h) => sourcemap::decode_slice(h.to_json_text(Some(rng)).as_bytes()).expect("hermes model decodes"),
            SecMap::Index(i) => sourcemap::DecodedMap::Index(i.build(rng)),
        }
    }

    pub fn json(&self) -> Value {
        match self {
            SecMap::Regular(m) => m.json(),
            SecMap::Hermes(h) => h.json(),
            SecMap::Index(i) => i.json(),
        }
    }
}

impl IndexModel {
    pub fn to_json_text(&self, rng: &mut Rng) -> String {
        let mut secs: Vec<String> = self
            .sections
            .iter()
            .map(|s| {
                let mut pairs = vec![(
                    "offset".to_string(),
                    jobj(&[("line".into(), s.offset.0.to_string()), ("column".into(), s.offset.1.to_string())]),
                )];
                if let Some(u) = &s.url {
                    pairs.push(("url".into(), jstr(u)));
                } else if rng.chance(1, 4) {
                    pairs.push(("url".into(), "null".into()));
                }
                if let Some(m) = &s.map {
                    pairs.push(("map".into(), m.to_json_text(rng)));
                }
                rng.shuffle(&mut pairs);
                jobj(&pairs)
            })
            .collect();
        if self.sections.windows(2).all(|w| w[0].offset != w[1].offset) {
            rng.shuffle(&mut secs); // the decoder sorts sections by offset
        }
        let mut pairs = vec![("version".to_string(), "3".to_string()), ("sections".into(), jarr(secs))];
        if let Some(f) = &self.file {
            pairs.push(("file".into(), jstr(f)));
        }
        rng.shuffle(&mut pairs);
        jobj(&pairs)
    }

    pub fn build(&self, rng: &mut Rng) -> sourcemap::SourceMapIndex {
        let sections = self
            .sections
            .iter()
            .map(|s| sourcemap::SourceMapSection::new(s.offset, s.url.clone(), s.map.as_ref().map(|m| m.build(rng))))
            .collect();
        sourcemap::SourceMapIndex::new(self.file.clone(), sections)
    }

    pub fn json(&self) -> Value {
        json!({"file": self.file, "sections": self.sections.iter().map(|s| json!({
            "offset": [s.offset.0, s.offset.1], "url": s.url, "map": s.map.as_ref().map(SecMap::json)
        })).collect::<Vec<_>>()})
    }
}

/// Index whose sections have strictly increasing offsets (no other constraint).
pub fn gen_index(rng: &mut Rng, cfg: &GenCfg, depth: u32) -> IndexModel {
    let n = rng.range_usize(0, 4);
    let mut sections = vec![];
    let (mut l, mut c) = (rng.below(3) as u32, rng.below(10) as u32);
    for _ in 0..n {
        let map = match rng.below(10) {
            0 => None,
            1 | 2 if depth > 0 => Some(SecMap::Index(gen_index(rng, cfg, depth - 1))),
            3 | 4 => Some(SecMap::Hermes(gen_hermes(rng, cfg))),
            _ => Some(SecMap::Regular(gen_map(rng, cfg))),
        };
        let url = if map.is_none() || rng.chance(1, 5) {
            Some(rng.pick(&["http://h/a.map", "a.map", "", "é.map"]).to_string())
        } else {
            None
        };
        sections.push(SectionModel { offset: (l, c), url, map });
        if rng.chance(1, 3) {
            c += rng.range(1, 30) as u32;
        } else {
            l += rng.range(1, 20) as u32;
            c = rng.below(20) as u32;
        }
    }
    IndexModel { file: if rng.bool() { Some(rng.pick(FILE_POOL).to_string()) } else { None }, sections }
}
