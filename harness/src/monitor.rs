//! Event counting, panic capture, watchdog, resource monitor, verdict records.
//!
//! One `Ctx` per shard process. A monitor (src/props/cNN.rs) drives the crate, and reports
//! through the `Ctx`: evaluations, coverage buckets, per-operation event counts, distinct
//! non-trivial case hashes, sample cases and violations (each with a signature and the
//! data needed to replay the case). The shard summary is written as JSON; the `check`
//! driver merges shard summaries into the evidence file and decides the verdict.

use serde_json::{json, Map, Value};
use std::cell::RefCell;
use std::collections::{BTreeMap, HashSet};
use std::io::Write;
use std::panic::{self, AssertUnwindSafe};
use std::sync::atomic::{AtomicU64, AtomicUsize, Ordering};
use std::sync::Arc;

use crate::rng::Rng;

#[derive(Clone, Copy, PartialEq, Eq, Debug)]
pub enum Tier {
    Quick,
    Thorough,
}

// ---------------------------------------------------------------------------------------
// panic capture

thread_local! {
    static LAST_PANIC: RefCell<Option<String>> = const { RefCell::new(None) };
}

pub fn install_panic_hook() {
    panic::set_hook(Box::new(|info| {
        let msg = if let Some(s) = info.payload().downcast_ref::<&str>() {
            (*s).to_string()
        } else if let Some(s) = info.payload().downcast_ref::<String>() {
            s.clone()
        } else {
            "<non-string panic payload>".to_string()
        };
        let loc = info
            .location()
            .map(|l| format!("{}:{}", l.file(), l.line()))
            .unwrap_or_else(|| "<unknown>".into());
        LAST_PANIC.with(|p| *p.borrow_mut() = Some(format!("{msg} @ {loc}")));
    }));
}

/// Runs `f`; a panic becomes `Err("message @ file:line")`.
pub fn catch<T>(f: impl FnOnce() -> T) -> Result<T, String> {
    match panic::catch_unwind(AssertUnwindSafe(f)) {
        Ok(v) => Ok(v),
        Err(_) => Err(LAST_PANIC
            .with(|p| p.borrow_mut().take())
            .unwrap_or_else(|| "<panic without message>".into())),
    }
}

/// Strips the line number from a panic description so that signatures stay stable when
/// unrelated lines move: "msg @ src/x.rs:12" -> "msg @ src/x.rs". Numbers inside the
/// message are replaced by `N`.
pub fn panic_sig(p: &str) -> String {
    let (msg, loc) = match p.rsplit_once(" @ ") {
        Some((m, l)) => (m, l),
        None => (p, ""),
    };
    let file = loc.rsplit_once(':').map(|x| x.0).unwrap_or(loc);
    let file = file.rsplit_once("/src/").map(|x| x.1).unwrap_or(file);
    // drop quoted payloads (`...`, '...') so that the signature names the kind of panic only
    let mut cleaned = String::new();
    let mut quote: Option<char> = None;
    for c in msg.chars() {
        match quote {
            Some(q) => {
                if c == q {
                    quote = None;
                    cleaned.push('_');
                }
            }
            None => {
                if c == '`' || c == '\'' {
                    quote = Some(c);
                } else {
                    cleaned.push(c);
                }
            }
        }
    }
    let msg = cleaned.as_str();
    let mut out = String::new();
    let mut in_num = false;
    for c in msg.chars().take(70) {
        if c.is_ascii_digit() {
            if !in_num {
                out.push('N');
            }
            in_num = true;
        } else {
            in_num = false;
            out.push(if c.is_whitespace() { '_' } else { c });
        }
    }
    format!("panic:{out}@{file}")
}

// ---------------------------------------------------------------------------------------
// resource monitor (counting allocator)

pub static ALLOC_LIVE: AtomicUsize = AtomicUsize::new(0);
pub static ALLOC_PEAK: AtomicUsize = AtomicUsize::new(0);
pub static ALLOC_MAX_REQ: AtomicUsize = AtomicUsize::new(0);
pub static ALLOC_REFUSED: AtomicUsize = AtomicUsize::new(0);

#[cfg(all(feature = "alloc_monitor", not(miri)))]
mod counting_alloc {
    use super::*;
    use std::alloc::{GlobalAlloc, Layout, System};

    pub struct Counting;

    const REFUSE_ABOVE: usize = 1 << 30;

    #[inline]
    fn on_alloc(size: usize) {
        let live = ALLOC_LIVE.fetch_add(size, Ordering::Relaxed) + size;
        ALLOC_PEAK.fetch_max(live, Ordering::Relaxed);
        ALLOC_MAX_REQ.fetch_max(size, Ordering::Relaxed);
    }

    unsafe impl GlobalAlloc for Counting {
        unsafe fn alloc(&self, layout: Layout) -> *mut u8 {
            if layout.size() > REFUSE_ABOVE {
                ALLOC_REFUSED.fetch_max(layout.size(), Ordering::Relaxed);
                return std::ptr::null_mut();
            }
            let p = System.alloc(layout);
            if !p.is_null() {
                on_alloc(layout.size());
            }
            p
        }
        unsafe fn alloc_zeroed(&self, layout: Layout) -> *mut u8 {
            if layout.size() > REFUSE_ABOVE {
                ALLOC_REFUSED.fetch_max(layout.size(), Ordering::Relaxed);
                return std::ptr::null_mut();
            }
            let p = System.alloc_zeroed(layout);
            if !p.is_null() {
                on_alloc(layout.size());
            }
            p
        }
        unsafe fn dealloc(&self, ptr: *mut u8, layout: Layout) {
            System.dealloc(ptr, layout);
            ALLOC_LIVE.fetch_sub(layout.size(), Ordering::Relaxed);
        }
        unsafe fn realloc(&self, ptr: *mut u8, layout: Layout, new_size: usize) -> *mut u8 {
            if new_size > REFUSE_ABOVE {
                ALLOC_REFUSED.fetch_max(new_size, Ordering::Relaxed);
                return std::ptr::null_mut();
            }
            let p = System.realloc(ptr, layout, new_size);
            if !p.is_null() {
                ALLOC_LIVE.fetch_sub(layout.size(), Ordering::Relaxed);
                on_alloc(new_size);
            }
            p
        }
    }

    #[global_allocator]
    static GLOBAL: Counting = Counting;
}

pub fn alloc_monitor_active() -> bool {
    cfg!(all(feature = "alloc_monitor", not(miri)))
}

/// Resets the peak to the current live size and returns the live size.
pub fn alloc_reset() -> usize {
    let live = ALLOC_LIVE.load(Ordering::Relaxed);
    ALLOC_PEAK.store(live, Ordering::Relaxed);
    ALLOC_MAX_REQ.store(0, Ordering::Relaxed);
    live
}

/// Peak growth (bytes) since the matching `alloc_reset` that returned `base`.
pub fn alloc_peak_since(base: usize) -> usize {
    ALLOC_PEAK.load(Ordering::Relaxed).saturating_sub(base)
}

// ---------------------------------------------------------------------------------------
// watchdog: CPU time of the worker thread spent inside one case

struct Watch {
    stream: AtomicU64, // index into Ctx::stream_names
    stream_name: std::sync::Mutex<String>,
    case: AtomicU64,
    epoch: AtomicU64, // bumped whenever a new case starts
    limit_ticks: AtomicU64,
}

fn thread_cpu_ticks(tid: u64) -> Option<u64> {
    let s = std::fs::read_to_string(format!("/proc/self/task/{tid}/stat")).ok()?;
    // fields after the ')' that closes comm
    let rest = &s[s.rfind(')')? + 2..];
    let f: Vec<&str> = rest.split(' ').collect();
    // rest[0] = state (field 3); utime = field 14 -> rest index 11, stime = 15 -> 12
    let ut: u64 = f.get(11)?.parse().ok()?;
    let st: u64 = f.get(12)?.parse().ok()?;
    Some(ut + st)
}

fn current_tid() -> Option<u64> {
    let l = std::fs::read_link("/proc/thread-self").ok()?;
    l.file_name()?.to_str()?.parse().ok()
}

// ---------------------------------------------------------------------------------------

pub struct Violation {
    pub sig: String,
    pub stream: String,
    pub case: u64,
    pub desc: String,
    pub data: Value,
}

/// Case indices of one shard: block k of `step` consecutive indices contributes the element
/// at offset (shard + k) mod step, so that periodic patterns in the case index (n % 4 selects
/// a sub-workload, say) are spread over all shards.
pub struct CaseIter {
    next: u64, // block number (or plain index when step == 1)
    end: u64,
    step: u64,
    shard: u64,
}

impl Iterator for CaseIter {
    type Item = u64;
    fn next(&mut self) -> Option<u64> {
        loop {
            let n = if self.step == 1 { self.next } else { self.next * self.step + (self.shard + self.next) % self.step };
            if self.step == 1 {
                if n >= self.end {
                    return None;
                }
            } else if self.next * self.step >= self.end {
                return None;
            }
            self.next += 1;
            if n < self.end {
                return Some(n);
            }
        }
    }
}

pub struct Ctx {
    pub prop: String,
    pub tier: Tier,
    pub seed: u64,
    pub shard: u64,
    pub nshards: u64,
    /// replay mode: run only this (stream, case)
    pub only: Option<(String, u64)>,
    /// workload scale in percent (100 = as sized for the tier); sanitizer runs use less
    pub scale_pct: u64,
    /// which flavour this binary was built as (informational, goes into the summary)
    pub flavour: String,
    pub verbose: bool,
    /// sub-workload selector ("main" unless the driver asks for a special shard, e.g. "miri")
    pub mode: String,
    pub out_path: String,

    evaluations: u64,
    hashes: HashSet<u64>,
    hash_cap: usize,
    hash_capped: bool,
    enumerated: u64,
    buckets: BTreeMap<String, u64>,
    ops: BTreeMap<String, u64>,
    samples: Vec<Value>,
    sample_seen: u64,
    violations: Vec<Violation>,
    viol_counts: BTreeMap<String, u64>,
    notes: Map<String, Value>,
    exhaustive: Vec<String>,
    inconclusive: Vec<String>,
    stream_names: Vec<String>,
    watch: Arc<Watch>,
    trace: Option<std::fs::File>,
    started: std::time::Instant,
}

impl Ctx {
    pub fn new(prop: &str, tier: Tier, seed: u64, shard: u64, nshards: u64, out_path: &str) -> Ctx {
        let watch = Arc::new(Watch {
            stream: AtomicU64::new(0),
            stream_name: std::sync::Mutex::new(String::new()),
            case: AtomicU64::new(u64::MAX),
            epoch: AtomicU64::new(0),
            limit_ticks: AtomicU64::new(30 * 100),
        });
        let trace = if std::env::var("SMV_TRACE").is_ok() {
            std::fs::File::create(format!("{out_path}.trace")).ok()
        } else {
            None
        };
        let mut ctx = Ctx {
            prop: prop.to_string(),
            tier,
            seed,
            shard,
            nshards,
            only: None,
            scale_pct: 100,
            flavour: "checked".into(),
            verbose: false,
            mode: "main".into(),
            out_path: out_path.to_string(),
            evaluations: 0,
            hashes: HashSet::new(),
            hash_cap: 2_000_000,
            hash_capped: false,
            enumerated: 0,
            buckets: BTreeMap::new(),
            ops: BTreeMap::new(),
            samples: vec![],
            sample_seen: 0,
            violations: vec![],
            viol_counts: BTreeMap::new(),
            notes: Map::new(),
            exhaustive: vec![],
            inconclusive: vec![],
            stream_names: vec![],
            watch,
            trace,
            started: std::time::Instant::now(),
        };
        ctx.start_watchdog();
        ctx
    }

    fn start_watchdog(&mut self) {
        if cfg!(miri) {
            return;
        }
        let tid = match current_tid() {
            Some(t) => t,
            None => return,
        };
        let watch = self.watch.clone();
        let out = self.out_path.clone();
        std::thread::Builder::new()
            .name("watchdog".into())
            .spawn(move || {
                let mut last_epoch = u64::MAX;
                let mut base_ticks = 0u64;
                loop {
                    std::thread::sleep(std::time::Duration::from_millis(500));
                    let epoch = watch.epoch.load(Ordering::SeqCst);
                    let ticks = match thread_cpu_ticks(tid) {
                        Some(t) => t,
                        None => continue,
                    };
                    if epoch != last_epoch {
                        last_epoch = epoch;
                        base_ticks = ticks;
                        continue;
                    }
                    let limit = watch.limit_ticks.load(Ordering::SeqCst);
                    if ticks.saturating_sub(base_ticks) > limit {
                        let rec = json!({
                            "hang": true,
                            "stream_index": watch.stream.load(Ordering::SeqCst),
                            "stream": watch.stream_name.lock().map(|s| s.clone()).unwrap_or_default(),
                            "case": watch.case.load(Ordering::SeqCst),
                            "cpu_s": (ticks - base_ticks) as f64 / 100.0,
                        });
                        let _ = std::fs::write(format!("{out}.hang"), rec.to_string());
                        std::process::exit(3);
                    }
                }
            })
            .ok();
    }

    /// CPU-seconds one case may take before the watchdog declares a hang.
    pub fn set_case_cpu_limit(&self, secs: u64) {
        self.watch.limit_ticks.store(secs * 100, Ordering::SeqCst);
    }

    pub fn quick(&self) -> bool {
        self.tier == Tier::Quick
    }

    /// `q` for quick, `t` for thorough, scaled by `scale_pct` (never below `min`).
    pub fn size(&self, q: u64, t: u64) -> u64 {
        let base = if self.quick() { q } else { t };
        std::cmp::max(1, base * self.scale_pct / 100)
    }

    fn stream_index(&mut self, stream: &str) -> u64 {
        if let Some(i) = self.stream_names.iter().position(|s| s == stream) {
            return i as u64;
        }
        self.stream_names.push(stream.to_string());
        (self.stream_names.len() - 1) as u64
    }

    /// Case indices of `stream` this shard has to run.
    pub fn cases(&mut self, stream: &str, total: u64) -> CaseIter {
        self.stream_index(stream);
        if let Some((s, n)) = &self.only {
            if s == stream {
                return CaseIter { next: *n, end: *n + 1, step: 1, shard: 0 };
            }
            return CaseIter { next: 0, end: 0, step: 1, shard: 0 };
        }
        CaseIter { next: 0, end: total, step: self.nshards, shard: self.shard }
    }

    /// All case indices regardless of shard (for tiny streams run by one shard only).
    pub fn cases_unsharded(&mut self, stream: &str, total: u64) -> CaseIter {
        self.stream_index(stream);
        if let Some((s, n)) = &self.only {
            if s == stream {
                return CaseIter { next: *n, end: *n + 1, step: 1, shard: 0 };
            }
            return CaseIter { next: 0, end: 0, step: 1, shard: 0 };
        }
        CaseIter { next: 0, end: total, step: 1, shard: 0 }
    }

    /// Marks the start of case `n` of `stream` (watchdog, trace) and returns its RNG.
    pub fn begin(&mut self, stream: &str, n: u64) -> Rng {
        let si = self.stream_index(stream);
        if self.watch.stream.swap(si, Ordering::SeqCst) != si || n == 0 {
            if let Ok(mut g) = self.watch.stream_name.lock() {
                *g = stream.to_string();
            }
        }
        self.watch.case.store(n, Ordering::SeqCst);
        self.watch.epoch.fetch_add(1, Ordering::SeqCst);
        if let Some(f) = self.trace.as_mut() {
            let _ = writeln!(f, "{stream} {n}");
            let _ = f.flush();
        }
        Rng::for_case(self.seed, &self.prop, crate::rng::fnv1a(stream.as_bytes()), n)
    }

    pub fn eval(&mut self) {
        self.evaluations += 1;
    }

    pub fn evals(&mut self, n: u64) {
        self.evaluations += n;
    }

    pub fn bucket(&mut self, name: &str) {
        *self.buckets.entry(name.to_string()).or_insert(0) += 1;
    }

    pub fn bucket_n(&mut self, name: &str, n: u64) {
        *self.buckets.entry(name.to_string()).or_insert(0) += n;
    }

    pub fn bucket_if(&mut self, cond: bool, name: &str) {
        if cond {
            self.bucket(name);
        }
    }

    pub fn op(&mut self, name: &str) {
        *self.ops.entry(name.to_string()).or_insert(0) += 1;
    }

    pub fn op_n(&mut self, name: &str, n: u64) {
        *self.ops.entry(name.to_string()).or_insert(0) += n;
    }

    /// Records a non-trivial case by the hash of its canonical form.
    pub fn nontrivial(&mut self, hash: u64) {
        if self.hashes.len() >= self.hash_cap {
            self.hash_capped = true;
            return;
        }
        self.hashes.insert(hash);
    }

    /// Non-trivial cases that are distinct by construction (members of an enumeration); they
    /// are counted, not hashed, and added to the merged distinct count by the driver.
    pub fn nontrivial_enumerated(&mut self, n: u64) {
        self.enumerated += n;
    }

    pub fn nontrivial_bytes(&mut self, bytes: &[u8]) {
        self.nontrivial(crate::rng::fnv1a(bytes));
    }

    /// Offers a sample case; a few are kept (the first ones and a sparse later selection).
    pub fn sample(&mut self, f: impl FnOnce() -> Value) {
        self.sample_seen += 1;
        let k = self.sample_seen;
        if self.samples.len() < 3 || (k.is_power_of_two() && self.samples.len() < 6) {
            let v = f();
            self.samples.push(v);
        }
    }

    pub fn note(&mut self, key: &str, v: Value) {
        self.notes.insert(key.to_string(), v);
    }

    pub fn note_add(&mut self, key: &str, n: u64) {
        let cur = self.notes.get(key).and_then(Value::as_u64).unwrap_or(0);
        self.notes.insert(key.to_string(), json!(cur + n));
    }

    pub fn note_max(&mut self, key: &str, v: u64) {
        let key = format!("max:{key}");
        let cur = self.notes.get(&key).and_then(Value::as_u64).unwrap_or(0);
        if v > cur {
            self.notes.insert(key, json!(v));
        }
    }

    pub fn exhaustive(&mut self, what: &str) {
        self.exhaustive.push(what.to_string());
    }

    /// Something prevented a verdict for part of the workload (a wall-clock guard fired, a tool
    /// is missing). Never a violation; the driver turns it into exit code 2.
    pub fn inconclusive(&mut self, reason: String) {
        if self.inconclusive.len() < 5 {
            self.inconclusive.push(reason);
        }
    }

    /// Records a rejected history. `sig` identifies the *kind* of discrepancy (used for the
    /// known-findings protocol); `data` must contain everything needed to understand the case.
    pub fn violation(&mut self, sig: &str, stream: &str, case: u64, desc: String, data: Value) {
        let c = self.viol_counts.entry(sig.to_string()).or_insert(0);
        *c += 1;
        if *c <= 3 {
            if self.verbose {
                eprintln!("violation sig={sig} stream={stream} case={case}: {desc}");
            }
            self.violations.push(Violation {
                sig: sig.to_string(),
                stream: stream.to_string(),
                case,
                desc,
                data,
            });
        }
    }

    pub fn violation_count(&self) -> u64 {
        self.viol_counts.values().sum()
    }

    pub fn finish(mut self) {
        let mut hashes: Vec<u64> = self.hashes.drain().collect();
        hashes.sort_unstable();
        let hash_path = format!("{}.hashes", self.out_path);
        let mut bytes = Vec::with_capacity(hashes.len() * 8);
        for h in &hashes {
            bytes.extend_from_slice(&h.to_le_bytes());
        }
        std::fs::write(&hash_path, bytes).expect("write hashes");
        let summary = json!({
            "property": self.prop,
            "tier": if self.tier == Tier::Quick { "quick" } else { "thorough" },
            "seed": self.seed,
            "shard": self.shard,
            "nshards": self.nshards,
            "flavour": self.flavour,
            "scale_pct": self.scale_pct,
            "evaluations": self.evaluations,
            "distinct_local": hashes.len(),
            "hash_capped": self.hash_capped,
            "distinct_enumerated": self.enumerated,
            "hash_file": hash_path,
            "buckets": self.buckets,
            "events_by_op": self.ops,
            "samples": self.samples,
            "notes": Value::Object(self.notes),
            "exhaustive": self.exhaustive,
            "inconclusive": self.inconclusive,
            "violation_counts": self.viol_counts,
            "violations": self.violations.iter().map(|v| json!({
                "sig": v.sig, "stream": v.stream, "case": v.case, "desc": v.desc, "data": v.data,
            })).collect::<Vec<_>>(),
            "streams": self.stream_names,
            "wall_s": self.started.elapsed().as_secs_f64(),
        });
        std::fs::write(&self.out_path, serde_json::to_vec(&summary).unwrap()).expect("write summary");
    }
}

/// 64-bit hash of a JSON value's canonical text (serde_json maps are ordered).
pub fn hash_value(v: &Value) -> u64 {
    crate::rng::fnv1a(v.to_string().as_bytes())
}
