//! `rangeMappings` codec (tc39 range-mappings proposal): one base64 string per generated
//! line, lines separated by ';'. Bit i of a line (bit 0 = least significant bit of the first
//! base64 digit, 6 bits per digit) is set iff the i-th mapping of that line is a range
//! mapping. Trailing zero digits may be omitted.

use super::vlq::{digit_of, ALPHABET};

/// `flags[line]` = set of segment indexes on that line that are ranges.
pub fn encode(flags: &[Vec<usize>]) -> Option<String> {
    if flags.iter().all(|l| l.is_empty()) {
        return None;
    }
    let last_line = flags.iter().rposition(|l| !l.is_empty()).unwrap();
    let mut out = String::new();
    for (li, l) in flags.iter().enumerate().take(last_line + 1) {
        if li > 0 {
            out.push(';');
        }
        if let Some(&max) = l.iter().max() {
            let ndig = max / 6 + 1;
            let mut digs = vec![0u8; ndig];
            for &i in l {
                digs[i / 6] |= 1 << (i % 6);
            }
            for d in digs {
                out.push(ALPHABET[d as usize] as char);
            }
        }
    }
    Some(out)
}

/// Returns for each line the sorted list of set bit indexes; Err on a non-alphabet byte.
pub fn decode(text: &str) -> Result<Vec<Vec<usize>>, u8> {
    let mut out = vec![];
    for line in text.split(';') {
        let mut l = vec![];
        for (di, &c) in line.as_bytes().iter().enumerate() {
            let d = digit_of(c).ok_or(c)?;
            for b in 0..6 {
                if d & (1 << b) != 0 {
                    l.push(di * 6 + b);
                }
            }
        }
        out.push(l);
    }
    Ok(out)
}

pub fn self_check() {
    assert_eq!(encode(&[vec![12]]).unwrap(), "AAB");
    assert_eq!(encode(&[vec![5]]).unwrap(), "g");
    assert_eq!(encode(&[vec![0, 11]]).unwrap(), "Bg");
    assert_eq!(encode(&[vec![], vec![], vec![0]]).unwrap(), ";;B");
    assert_eq!(encode(&[vec![], vec![]]), None);
    assert_eq!(decode("AAB;;g").unwrap(), vec![vec![12], vec![], vec![5]]);
    let lim = if cfg!(miri) { 8usize } else { 40 };
    for a in 0..lim {
        for b in a..lim {
            let f = vec![vec![a, b], vec![], vec![b]];
            let mut want = f.clone();
            want[0].dedup();
            assert_eq!(decode(&encode(&f).unwrap()).unwrap(), want);
        }
    }
}
