//! Independent references. Nothing in here calls into the `sourcemap` crate.
pub mod vlq;
pub mod mappings;
pub mod rmi;
pub mod json;
pub mod metro;
