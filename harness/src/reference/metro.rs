//! Metro / Hermes function maps (`x_facebook_sources[i][0]`), written from Metro's
//! `SourceMetadataMapConsumer` / `generateFunctionMap` description:
//!   * `names`: function names; `mappings`: ';'-separated groups of ','-separated VLQ segments;
//!   * a segment has 1..3 values: column delta (column restarts at 0 after every ';'),
//!     name-index delta (running over the whole string, default 0), line delta (running over
//!     the whole string, lines start at 1, default 0);
//!   * the entry found for a position (1-based line, 0-based column) is the last entry that is
//!     not after the position; its name index selects the function name.

use super::vlq;

pub type Entry = (u32, u32, u32); // (line starting at 1, column, name index)

pub struct EncodeStyle {
    pub omit_trailing_zero: bool,
    pub leading_separator: bool,
    pub group_per_line: bool,
}

/// Encodes entries (sorted by position). `style` only changes presentation, never meaning.
pub fn encode(entries: &[Entry], style: &EncodeStyle) -> String {
    let mut out = String::new();
    let (mut line, mut name, mut col) = (1i128, 0i128, 0i128);
    let mut first = true;
    let mut cur_group_line: Option<u32> = None;
    for &(l, c, n) in entries {
        let new_group = match cur_group_line {
            None => style.leading_separator && l > 1,
            Some(gl) => style.group_per_line && gl != l,
        };
        if new_group {
            out.push(';');
            col = 0;
        } else if !first {
            out.push(',');
        }
        first = false;
        cur_group_line = Some(l);
        let dcol = i128::from(c) - col;
        let dname = i128::from(n) - name;
        let dline = i128::from(l) - line;
        vlq::encode_one(&mut out, dcol);
        if !(style.omit_trailing_zero && dname == 0 && dline == 0) {
            vlq::encode_one(&mut out, dname);
            if !(style.omit_trailing_zero && dline == 0) {
                vlq::encode_one(&mut out, dline);
            }
        }
        col = i128::from(c);
        name = i128::from(n);
        line = i128::from(l);
    }
    out
}

/// Reference decoder: None when any segment is not valid VLQ (the whole function map is
/// then unusable).
pub fn decode(text: &str) -> Option<Vec<(i128, i128, i128)>> {
    let mut out = vec![];
    let (mut line, mut name) = (1i128, 0i128);
    for group in text.split(';') {
        let mut col = 0i128;
        for seg in group.split(',') {
            if seg.is_empty() {
                continue;
            }
            let v = vlq::decode(seg.as_bytes()).ok()?;
            col += v[0];
            name += v.get(1).copied().unwrap_or(0);
            line += v.get(2).copied().unwrap_or(0);
            out.push((line, col, name));
        }
    }
    Some(out)
}

/// Name of the enclosing function of original position (0-based line, 0-based col).
pub fn lookup<'a>(names: &'a [String], entries: &[Entry], src_line: u32, src_col: u32) -> Option<&'a str> {
    let key = (u64::from(src_line) + 1, u64::from(src_col));
    let mut best: Option<&Entry> = None;
    for e in entries {
        if (u64::from(e.0), u64::from(e.1)) <= key {
            match best {
                Some(b) if (b.0, b.1) >= (e.0, e.1) => {}
                _ => best = Some(e),
            }
        }
    }
    let e = best?;
    names.get(e.2 as usize).map(String::as_str)
}

pub fn self_check(rng: &mut crate::rng::Rng) {
    for _ in 0..(if cfg!(miri) { 10 } else { 2000 }) {
        let mut entries: Vec<Entry> = vec![];
        let (mut l, mut c) = (rng.range(1, 3) as u32, rng.below(5) as u32);
        for _ in 0..rng.range_usize(0, 12) {
            entries.push((l, c, rng.below(6) as u32));
            if rng.chance(1, 3) {
                l += rng.range(1, 3) as u32;
                c = rng.below(10) as u32;
            } else {
                c += rng.range(1, 9) as u32;
            }
        }
        let style = EncodeStyle { omit_trailing_zero: rng.bool(), leading_separator: rng.bool(), group_per_line: rng.bool() };
        let text = encode(&entries, &style);
        let back = decode(&text).expect("own encoding decodes");
        let want: Vec<(i128, i128, i128)> = entries.iter().map(|e| (i128::from(e.0), i128::from(e.1), i128::from(e.2))).collect();
        assert_eq!(back, want, "metro reference round trip {text}");
    }
    // vector taken from Metro's documentation style: one function starting at 1:0, another at 2:4
    let e = vec![(1, 0, 0), (2, 4, 1)];
    let names = vec!["<global>".to_string(), "f".to_string()];
    assert_eq!(lookup(&names, &e, 0, 0), Some("<global>"));
    assert_eq!(lookup(&names, &e, 1, 3), Some("<global>"));
    assert_eq!(lookup(&names, &e, 1, 4), Some("f"));
    assert_eq!(lookup(&names, &e, 5, 0), Some("f"));
    assert_eq!(lookup(&names, &[(2, 0, 0)], 0, 7), None);
    assert_eq!(decode("AAA!"), None);
}
