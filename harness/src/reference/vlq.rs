//! Base64 VLQ as defined by the Source Map v3 format, written from the specification.
//!
//! value -> unsigned: (|v| << 1) | (v < 0); emitted 5 bits at a time, least significant
//! group first, bit 5 (value 32) of a digit set when more groups follow; digits are written
//! in the base64 alphabet A-Z a-z 0-9 + /.

pub const ALPHABET: &[u8; 64] = b"ABCDEFGHIJKLMNOPQRSTUVWXYZabcdefghijklmnopqrstuvwxyz0123456789+/";

pub fn digit_of(c: u8) -> Option<u32> {
    match c {
        b'A'..=b'Z' => Some(u32::from(c - b'A')),
        b'a'..=b'z' => Some(u32::from(c - b'a') + 26),
        b'0'..=b'9' => Some(u32::from(c - b'0') + 52),
        b'+' => Some(62),
        b'/' => Some(63),
        _ => None,
    }
}

pub fn encode_one(out: &mut String, v: i128) {
    let mut u: u128 = (v.unsigned_abs() << 1) | u128::from(v < 0);
    loop {
        let mut d = (u & 31) as usize;
        u >>= 5;
        if u != 0 {
            d |= 32;
        }
        out.push(ALPHABET[d] as char);
        if u == 0 {
            break;
        }
    }
}

pub fn encode(vals: &[i128]) -> String {
    let mut s = String::new();
    for &v in vals {
        encode_one(&mut s, v);
    }
    s
}

#[derive(Debug, Clone, Copy, PartialEq, Eq)]
pub enum VlqErr {
    Empty,
    Unterminated,
    TooLong,
    Foreign(u8),
}

/// Strict standard decoder. Values are returned with their full magnitude (u128 arithmetic);
/// a value with more than `MAX_DIGITS` digits is an error.
pub const MAX_DIGITS: usize = 13;

pub fn decode(seg: &[u8]) -> Result<Vec<i128>, VlqErr> {
    let mut out = vec![];
    let mut acc: u128 = 0;
    let mut digits = 0usize;
    for &c in seg {
        let d = digit_of(c).ok_or(VlqErr::Foreign(c))?;
        digits += 1;
        if digits > MAX_DIGITS {
            return Err(VlqErr::TooLong);
        }
        acc |= u128::from(d & 31) << (5 * (digits - 1));
        if d & 32 == 0 {
            let mag = (acc >> 1) as i128;
            out.push(if acc & 1 == 1 { -mag } else { mag });
            acc = 0;
            digits = 0;
        }
    }
    if digits != 0 {
        return Err(VlqErr::Unterminated);
    }
    if out.is_empty() {
        return Err(VlqErr::Empty);
    }
    Ok(out)
}

/// Self-test + cross-check against the third-party `vlq` crate. Panics on disagreement
/// (that would be a harness error, not a property violation).
pub fn self_check(rng: &mut crate::rng::Rng, n: u64) -> u64 {
    let n = if cfg!(miri) { n.min(40) } else { n };
    let mut checked = 0;
    for i in 0..n {
        let v: i64 = match i % 4 {
            0 => (rng.below(64) as i64) - 32,
            1 => (rng.next_u32() as i64) - (1 << 31),
            2 => {
                let k = rng.below(62);
                let b = 1i64 << k;
                [b, b - 1, b + 1, -b, -b + 1, -b - 1][rng.usize_below(6)]
            }
            _ => (rng.next_u64() >> 2) as i64 * if rng.bool() { 1 } else { -1 },
        };
        let mine = encode(&[i128::from(v)]);
        let mut theirs = vec![];
        ::vlq::encode(v, &mut theirs).unwrap();
        assert_eq!(mine.as_bytes(), &theirs[..], "reference VLQ encoder disagrees with vlq crate on {v}");
        let back = decode(mine.as_bytes()).unwrap();
        assert_eq!(back, vec![i128::from(v)], "reference VLQ decode(encode({v}))");
        let mut it = theirs.iter().cloned();
        let t = ::vlq::decode(&mut it).unwrap();
        assert_eq!(t, v);
        checked += 1;
    }
    // a few spec vectors
    assert_eq!(encode(&[0, 0, 0, 0]), "AAAA");
    assert_eq!(encode(&[3, 0, 0, 4, 0]), "GAAIA");
    assert_eq!(encode(&[16]), "gB");
    assert_eq!(encode(&[-1]), "D");
    assert_eq!(decode(b"gB"), Ok(vec![16]));
    assert_eq!(decode(b"g"), Err(VlqErr::Unterminated));
    assert_eq!(decode(b""), Err(VlqErr::Empty));
    assert_eq!(decode(b"A!"), Err(VlqErr::Foreign(b'!')));
    assert_eq!(decode(b"ggggggggggggggA"), Err(VlqErr::TooLong));
    assert!(decode(b"gggggggggggggA").is_err());
    assert!(decode(b"ggggggggggggA").is_ok());
    checked
}
