//! Source Map v3 `mappings` codec, written from the format description:
//!  * ';' separates generated lines, ',' separates segments of a line;
//!  * a segment is 1, 4 or 5 VLQ values: generated column (relative to the previous
//!    segment of the same line, starting at 0 on every line), source index, original
//!    line, original column, name index (each relative to its previous occurrence anywhere);
//!  * a 1-value segment has no source and no name.

use super::vlq;

#[derive(Debug, Clone, Copy, PartialEq, Eq, PartialOrd, Ord, Hash)]
pub struct RefSrc {
    pub id: i128,
    pub line: i128,
    pub col: i128,
    pub name: Option<i128>,
}

#[derive(Debug, Clone, Copy, PartialEq, Eq, PartialOrd, Ord, Hash)]
pub struct RefTok {
    pub dl: i128,
    pub dc: i128,
    pub src: Option<RefSrc>,
}

#[derive(Debug, Clone, PartialEq, Eq)]
pub enum MapErr {
    Vlq(vlq::VlqErr),
    Arity(usize),
    SourceIndex(i128),
    NameIndex(i128),
}

/// Strict decoder. Empty lines and empty segments are allowed (they carry nothing).
/// Tokens are returned in text order; `seg_index` (position among the non-empty *and*
/// empty ','-separated pieces of its line) is returned alongside for the range-mapping codec.
pub fn decode(mappings: &str, n_sources: usize, n_names: usize) -> Result<Vec<(RefTok, usize)>, MapErr> {
    let mut out = vec![];
    let (mut sid, mut sl, mut sc, mut nid) = (0i128, 0i128, 0i128, 0i128);
    for (dl, line) in mappings.split(';').enumerate() {
        let mut dc = 0i128;
        for (seg_index, seg) in line.split(',').enumerate() {
            if seg.is_empty() {
                continue;
            }
            let vals = vlq::decode(seg.as_bytes()).map_err(MapErr::Vlq)?;
            if !matches!(vals.len(), 1 | 4 | 5) {
                return Err(MapErr::Arity(vals.len()));
            }
            dc += vals[0];
            let src = if vals.len() >= 4 {
                sid += vals[1];
                if sid < 0 || sid >= n_sources as i128 {
                    return Err(MapErr::SourceIndex(sid));
                }
                sl += vals[2];
                sc += vals[3];
                let name = if vals.len() == 5 {
                    nid += vals[4];
                    if nid < 0 || nid >= n_names as i128 {
                        return Err(MapErr::NameIndex(nid));
                    }
                    Some(nid)
                } else {
                    None
                };
                Some(RefSrc { id: sid, line: sl, col: sc, name })
            } else {
                None
            };
            out.push((RefTok { dl: dl as i128, dc, src }, seg_index));
        }
    }
    Ok(out)
}

/// Presentation of one generated line: the segments in the order they are to be written
/// (any order: deltas may be negative), with optional empty segments in between.
pub struct LinePres {
    pub items: Vec<Option<RefTok>>, // None = an empty segment ("" between commas)
}

/// Encodes lines (index = generated line). Every token's `dl` must equal its line index.
pub fn encode(lines: &[LinePres]) -> String {
    let mut out = String::new();
    let (mut sid, mut sl, mut sc, mut nid) = (0i128, 0i128, 0i128, 0i128);
    for (li, line) in lines.iter().enumerate() {
        if li > 0 {
            out.push(';');
        }
        let mut dc = 0i128;
        for (si, item) in line.items.iter().enumerate() {
            if si > 0 {
                out.push(',');
            }
            let t = match item {
                Some(t) => t,
                None => continue,
            };
            assert_eq!(t.dl, li as i128);
            vlq::encode_one(&mut out, t.dc - dc);
            dc = t.dc;
            if let Some(s) = t.src {
                vlq::encode_one(&mut out, s.id - sid);
                sid = s.id;
                vlq::encode_one(&mut out, s.line - sl);
                sl = s.line;
                vlq::encode_one(&mut out, s.col - sc);
                sc = s.col;
                if let Some(n) = s.name {
                    vlq::encode_one(&mut out, n - nid);
                    nid = n;
                }
            }
        }
    }
    out
}

/// Plain presentation: tokens (already ordered by position) grouped into lines, no empty segments.
pub fn lines_of(tokens: &[RefTok]) -> Vec<LinePres> {
    let n_lines = tokens.iter().map(|t| t.dl as usize + 1).max().unwrap_or(0);
    let mut lines: Vec<LinePres> = (0..n_lines).map(|_| LinePres { items: vec![] }).collect();
    for t in tokens {
        lines[t.dl as usize].items.push(Some(*t));
    }
    lines
}

pub fn self_check(rng: &mut crate::rng::Rng, n: u64) -> u64 {
    let n = if cfg!(miri) { n.min(10) } else { n };
    for _ in 0..n {
        let n_src = rng.range_usize(1, 4);
        let n_names = rng.range_usize(1, 4);
        let n_lines = rng.range_usize(0, 5);
        let mut lines = vec![];
        let mut expect = vec![];
        for li in 0..n_lines {
            let mut items = vec![];
            for _ in 0..rng.range_usize(0, 5) {
                if rng.chance(1, 6) {
                    items.push(None);
                    continue;
                }
                let src = if rng.chance(1, 4) {
                    None
                } else {
                    Some(RefSrc {
                        id: rng.below(n_src as u64) as i128,
                        line: rng.below(1 << 33) as i128,
                        col: rng.below(100) as i128,
                        name: if rng.bool() { Some(rng.below(n_names as u64) as i128) } else { None },
                    })
                };
                let t = RefTok { dl: li as i128, dc: rng.below(1 << 20) as i128, src };
                items.push(Some(t));
            }
            for (si, it) in items.iter().enumerate() {
                if let Some(t) = it {
                    expect.push((*t, si));
                }
            }
            lines.push(LinePres { items });
        }
        let text = encode(&lines);
        let back = decode(&text, n_src, n_names).expect("reference mappings decode of own encoding");
        assert_eq!(back, expect, "reference mappings codec round trip: {text}");
    }
    assert_eq!(
        decode("AAAA,GAAIA;;C", 1, 1).unwrap().iter().map(|x| x.0).collect::<Vec<_>>(),
        vec![
            RefTok { dl: 0, dc: 0, src: Some(RefSrc { id: 0, line: 0, col: 0, name: None }) },
            RefTok { dl: 0, dc: 3, src: Some(RefSrc { id: 0, line: 0, col: 4, name: Some(0) }) },
            RefTok { dl: 2, dc: 1, src: None },
        ]
    );
    assert_eq!(decode("AA", 1, 1), Err(MapErr::Arity(2)));
    assert_eq!(decode("ACAA", 1, 1), Err(MapErr::SourceIndex(1)));
    assert_eq!(decode("AAAAC", 1, 1), Err(MapErr::NameIndex(1)));
    assert_eq!(decode("ADAA", 1, 1), Err(MapErr::SourceIndex(-1)));
    n
}
