//! Minimal JSON *writer* with caller-controlled key order (serde_json's string escaping is
//! the only borrowed piece; the documents are re-parsed by serde_json in the self-check).

pub fn jstr(s: &str) -> String {
    serde_json::to_string(s).unwrap()
}

pub fn jopt_str(s: &Option<String>) -> String {
    match s {
        Some(s) => jstr(s),
        None => "null".into(),
    }
}

pub fn jarr(items: impl IntoIterator<Item = String>) -> String {
    let v: Vec<String> = items.into_iter().collect();
    format!("[{}]", v.join(","))
}

/// Object from (key, already-encoded value) pairs, in the given order.
pub fn jobj(pairs: &[(String, String)]) -> String {
    let v: Vec<String> = pairs.iter().map(|(k, v)| format!("{}:{}", jstr(k), v)).collect();
    format!("{{{}}}", v.join(","))
}
