//! Observation of real maps through public accessors only. Two maps are compared by
//! comparing their observations; nothing else is ever used to call two maps "equal".

use serde_json::{json, Value};
use sourcemap::{DecodedMap, SourceMap, SourceMapHermes, SourceMapIndex};

#[derive(Debug, Clone, PartialEq, Eq, PartialOrd, Ord, Hash)]
pub struct ObsTok {
    pub dl: u32,
    pub dc: u32,
    pub has_source: bool,
    pub source: Option<String>,
    pub sl: u32,
    pub sc: u32,
    pub name: Option<String>,
    pub range: bool,
    pub src_id: u32,
    pub name_id: u32,
}

impl ObsTok {
    /// What C01/C03 call "the token": generated position, source name, original position
    /// only when there is a source, name. Ids and the don't-care fields are left out.
    pub fn semantic(&self) -> (u32, u32, Option<String>, u32, u32, Option<String>, bool) {
        if self.has_source {
            (self.dl, self.dc, self.source.clone(), self.sl, self.sc, self.name.clone(), self.range)
        } else {
            (self.dl, self.dc, None, 0, 0, None, self.range)
        }
    }

    pub fn json(&self) -> Value {
        json!([self.dl, self.dc, self.source, self.sl, self.sc, self.name, self.range, self.src_id as i64, self.name_id as i64])
    }
}

#[derive(Debug, Clone, PartialEq, Eq)]
pub struct ObsMap {
    pub hermes: bool,
    pub file: Option<String>,
    pub root: Option<String>,
    pub debug_id: Option<String>,
    pub sources: Vec<String>,
    pub names: Vec<String>,
    pub contents: Vec<Option<String>>,
    pub ignore: Vec<u32>,
    pub tokens: Vec<ObsTok>,
    /// Hermes only: `get_scope_for_token` of every token
    pub scopes: Vec<Option<String>>,
    pub token_count: u32,
    pub source_count: u32,
    pub name_count: u32,
}

#[derive(Debug, Clone, PartialEq, Eq)]
pub struct ObsSection {
    pub offset: (u32, u32),
    pub url: Option<String>,
    pub map: Option<Box<Obs>>,
}

#[derive(Debug, Clone, PartialEq, Eq)]
pub enum Obs {
    Map(ObsMap),
    Index {
        file: Option<String>,
        sections: Vec<ObsSection>,
        fb_offsets: Option<Vec<Option<u32>>>,
        module_paths: Option<Vec<String>>,
    },
}

pub fn observe_tokens(sm: &SourceMap) -> Vec<ObsTok> {
    sm.tokens()
        .map(|t| ObsTok {
            dl: t.get_dst_line(),
            dc: t.get_dst_col(),
            has_source: t.has_source(),
            source: t.get_source().map(str::to_string),
            sl: t.get_src_line(),
            sc: t.get_src_col(),
            name: t.get_name().map(str::to_string),
            range: t.is_range(),
            src_id: t.get_src_id(),
            name_id: t.get_name_id(),
        })
        .collect()
}

pub fn observe_sm(sm: &SourceMap) -> ObsMap {
    ObsMap {
        hermes: false,
        file: sm.get_file().map(str::to_string),
        root: sm.get_source_root().map(str::to_string),
        debug_id: sm.get_debug_id().map(|d| d.to_string()),
        sources: sm.sources().map(str::to_string).collect(),
        names: sm.names().map(str::to_string).collect(),
        contents: sm.source_contents().map(|c| c.map(str::to_string)).collect(),
        ignore: {
            // reported as a set: no statement orders the ignore list
            let mut v: Vec<u32> = sm.ignore_list().cloned().collect();
            v.sort_unstable();
            v.dedup();
            v
        },
        tokens: observe_tokens(sm),
        scopes: vec![],
        token_count: sm.get_token_count(),
        source_count: sm.get_source_count(),
        name_count: sm.get_name_count(),
    }
}

pub fn observe_hermes(h: &SourceMapHermes) -> ObsMap {
    let mut o = observe_sm(h);
    o.hermes = true;
    o.scopes = h.tokens().map(|t| h.get_scope_for_token(t).map(str::to_string)).collect();
    o
}

pub fn observe_index(i: &SourceMapIndex) -> Obs {
    Obs::Index {
        file: i.get_file().map(str::to_string),
        sections: i
            .sections()
            .map(|s| ObsSection {
                offset: s.get_offset(),
                url: s.get_url().map(str::to_string),
                map: s.get_sourcemap().map(|m| Box::new(observe(m))),
            })
            .collect(),
        fb_offsets: i.x_facebook_offsets().map(|x| x.to_vec()),
        module_paths: i.x_metro_module_paths().map(|x| x.to_vec()),
    }
}

pub fn observe(m: &DecodedMap) -> Obs {
    match m {
        DecodedMap::Regular(sm) => Obs::Map(observe_sm(sm)),
        DecodedMap::Hermes(h) => Obs::Map(observe_hermes(h)),
        DecodedMap::Index(i) => observe_index(i),
    }
}

impl ObsMap {
    /// Token sequence as the statements of C01/C03 define it, with exact consecutive
    /// duplicates removed.
    pub fn semantic_tokens_dedup(&self) -> Vec<(u32, u32, Option<String>, u32, u32, Option<String>, bool)> {
        let mut out: Vec<_> = vec![];
        for t in &self.tokens {
            let s = t.semantic();
            if out.last() != Some(&s) {
                out.push(s);
            }
        }
        out
    }

    pub fn json(&self) -> Value {
        json!({
            "hermes": self.hermes, "file": self.file, "root": self.root, "debug_id": self.debug_id,
            "sources": self.sources, "names": self.names, "contents": self.contents, "ignore": self.ignore,
            "tokens": self.tokens.iter().map(ObsTok::json).collect::<Vec<_>>(), "scopes": self.scopes,
        })
    }
}

impl Obs {
    pub fn json(&self) -> Value {
        match self {
            Obs::Map(m) => m.json(),
            Obs::Index { file, sections, fb_offsets, module_paths } => json!({
                "index": true, "file": file, "fb_offsets": fb_offsets, "module_paths": module_paths,
                "sections": sections.iter().map(|s| json!({
                    "offset": [s.offset.0, s.offset.1], "url": s.url,
                    "map": s.map.as_ref().map(|m| m.json()),
                })).collect::<Vec<_>>(),
            }),
        }
    }

    pub fn kind(&self) -> &'static str {
        match self {
            Obs::Map(m) if m.hermes => "hermes",
            Obs::Map(_) => "regular",
            Obs::Index { .. } => "index",
        }
    }
}

/// Result of comparing two observations the way C01 asks for.
#[derive(Debug, PartialEq, Eq)]
pub enum Cmp {
    Equal,
    /// equal once tokens sharing one generated position are compared as sets
    EqualUpToTieOrder,
    Different(String),
}

fn tie_sets(v: &[(u32, u32, Option<String>, u32, u32, Option<String>, bool)]) -> Vec<(u32, u32, Option<String>, u32, u32, Option<String>, bool)> {
    let mut s = v.to_vec();
    s.sort();
    s.dedup();
    s
}

/// Compares metadata exactly and tokens semantically (dedup of exact consecutive duplicates).
/// `with_ext`: also compare x_facebook_offsets / x_metro_module_paths of indexes.
pub fn compare(a: &Obs, b: &Obs, with_ext: bool) -> Cmp {
    match (a, b) {
        (Obs::Map(x), Obs::Map(y)) => compare_maps(x, y),
        (
            Obs::Index { file: f1, sections: s1, fb_offsets: o1, module_paths: p1 },
            Obs::Index { file: f2, sections: s2, fb_offsets: o2, module_paths: p2 },
        ) => {
            if f1 != f2 {
                return Cmp::Different(format!("index file {f1:?} vs {f2:?}"));
            }
            if with_ext && (o1 != o2 || p1 != p2) {
                return Cmp::Different("index facebook extensions differ".into());
            }
            if s1.len() != s2.len() {
                return Cmp::Different(format!("section count {} vs {}", s1.len(), s2.len()));
            }
            let mut tie = false;
            for (i, (x, y)) in s1.iter().zip(s2).enumerate() {
                if x.offset != y.offset {
                    return Cmp::Different(format!("section {i} offset {:?} vs {:?}", x.offset, y.offset));
                }
                if x.url != y.url {
                    return Cmp::Different(format!("section {i} url {:?} vs {:?}", x.url, y.url));
                }
                match (&x.map, &y.map) {
                    (None, None) => {}
                    (Some(m1), Some(m2)) => match compare(m1, m2, with_ext) {
                        Cmp::Equal => {}
                        Cmp::EqualUpToTieOrder => tie = true,
                        Cmp::Different(d) => return Cmp::Different(format!("section {i}: {d}")),
                    },
                    _ => return Cmp::Different(format!("section {i}: embedded map present on one side only")),
                }
            }
            if tie {
                Cmp::EqualUpToTieOrder
            } else {
                Cmp::Equal
            }
        }
        _ => Cmp::Different(format!("kind {} vs {}", a.kind(), b.kind())),
    }
}

pub fn compare_maps(x: &ObsMap, y: &ObsMap) -> Cmp {
    macro_rules! field {
        ($f:ident) => {
            if x.$f != y.$f {
                return Cmp::Different(format!("{} {:?} vs {:?}", stringify!($f), x.$f, y.$f));
            }
        };
    }
    field!(hermes);
    field!(file);
    field!(root);
    field!(debug_id);
    field!(sources);
    field!(names);
    field!(contents);
    field!(ignore);
    let tx = x.semantic_tokens_dedup();
    let ty = y.semantic_tokens_dedup();
    let mut tie = false;
    if tx != ty {
        if tie_sets(&tx) == tie_sets(&ty) {
            tie = true;
        } else {
            let i = tx.iter().zip(&ty).position(|(a, b)| a != b).unwrap_or(std::cmp::min(tx.len(), ty.len()));
            return Cmp::Different(format!(
                "tokens differ at #{i}: {:?} vs {:?} (lengths {} / {})",
                tx.get(i),
                ty.get(i),
                tx.len(),
                ty.len()
            ));
        }
    }
    if x.hermes {
        // scopes per semantic token (scope is a function of the token's source id and original position)
        let sx: Vec<_> = x.tokens.iter().zip(&x.scopes).map(|(t, s)| (t.semantic(), s.clone())).collect();
        let sy: Vec<_> = y.tokens.iter().zip(&y.scopes).map(|(t, s)| (t.semantic(), s.clone())).collect();
        let mut sx2 = sx.clone();
        sx2.sort();
        sx2.dedup();
        let mut sy2 = sy.clone();
        sy2.sort();
        sy2.dedup();
        if sx2 != sy2 {
            return Cmp::Different("hermes scopes differ".into());
        }
    }
    if tie {
        Cmp::EqualUpToTieOrder
    } else {
        Cmp::Equal
    }
}

/// C06's consequence clause: no decoded map holds a token whose source or name index does
/// not resolve. Returns a description of the first offending token.
pub fn unresolved_index(m: &DecodedMap) -> Option<String> {
    fn in_map(sm: &SourceMap) -> Option<String> {
        for (i, t) in sm.tokens().enumerate() {
            if t.has_source() && t.get_source().is_none() {
                return Some(format!("token #{i} has source id {} but the map has {} sources", t.get_src_id(), sm.get_source_count()));
            }
            if t.get_name_id() != !0 && t.get_name().is_none() {
                return Some(format!("token #{i} has name id {} but the map has {} names", t.get_name_id(), sm.get_name_count()));
            }
        }
        None
    }
    match m {
        DecodedMap::Regular(sm) => in_map(sm),
        DecodedMap::Hermes(h) => in_map(h),
        DecodedMap::Index(i) => i.sections().filter_map(|s| s.get_sourcemap()).find_map(unresolved_index),
    }
}
