//! C04 - token lookup returns the closest preceding mapping; tokens are always ordered.
//!
//! Oracle: linear scan over the map's own iteration order (public accessors only).

use serde_json::{json, Value};
use sourcemap::{decode_slice, DecodedMap, RawToken, SourceMap, SourceMapIndex, SourceMapSection};

use crate::model::*;
use crate::monitor::{catch, hash_value, panic_sig, Ctx};
use crate::rng::Rng;

type Fail = (String, String);

/// Ordering + indexing invariants of any map, however obtained.
pub fn check_order(sm: &SourceMap) -> Result<Vec<RawToken>, Fail> {
    let toks: Vec<RawToken> = sm.tokens().map(|t| t.get_raw_token()).collect();
    for (i, w) in toks.windows(2).enumerate() {
        if (w[0].dst_line, w[0].dst_col) > (w[1].dst_line, w[1].dst_col) {
            return Err(("tokens-not-ordered".into(), format!("token #{i} at {:?} is followed by {:?}", (w[0].dst_line, w[0].dst_col), (w[1].dst_line, w[1].dst_col))));
        }
    }
    if sm.get_token_count() as usize != toks.len() {
        return Err(("token-count".into(), format!("get_token_count {} but iteration yields {}", sm.get_token_count(), toks.len())));
    }
    for (i, t) in toks.iter().enumerate() {
        match sm.get_token(i) {
            Some(g) if g.get_raw_token() == *t => {}
            other => return Err(("get_token-mismatch".into(), format!("get_token({i}) = {:?}, iteration gave {:?}", other.map(|t| t.get_raw_token()), t))),
        }
    }
    if sm.get_token(toks.len()).is_some() {
        return Err(("get_token-past-end".into(), format!("get_token({}) is Some", toks.len())));
    }
    Ok(toks)
}

pub fn reference_lookup(toks: &[RawToken], line: u32, col: u32) -> Option<usize> {
    // greatest position <= query; first token (iteration order) at that position
    let mut best: Option<usize> = None;
    for (i, t) in toks.iter().enumerate() {
        let p = (t.dst_line, t.dst_col);
        if p <= (line, col) {
            match best {
                Some(b) if (toks[b].dst_line, toks[b].dst_col) >= p => {}
                _ => best = Some(i),
            }
        }
    }
    best
}

pub fn queries_for(toks: &[RawToken], rng: &mut Rng) -> Vec<(u32, u32)> {
    let mut q = vec![(0, 0), (u32::MAX, u32::MAX), (0, u32::MAX), (u32::MAX, 0)];
    let mut lines: Vec<u32> = toks.iter().map(|t| t.dst_line).collect();
    lines.sort_unstable();
    lines.dedup();
    for &l in &lines {
        q.push((l, 0));
        q.push((l, u32::MAX));
        if l > 0 {
            q.push((l - 1, 0));
            q.push((l - 1, u32::MAX));
            q.push((l - 1, rng.below(50) as u32));
        }
        if l < u32::MAX {
            q.push((l + 1, 0));
            q.push((l + 1, u32::MAX));
            q.push((l + 1, rng.below(50) as u32));
        }
    }
    for t in toks.iter().take(200) {
        q.push((t.dst_line, t.dst_col));
        if t.dst_col > 0 {
            q.push((t.dst_line, t.dst_col - 1));
        }
        if t.dst_col < u32::MAX {
            q.push((t.dst_line, t.dst_col + 1));
        }
    }
    for _ in 0..8 {
        q.push((rng.below(12) as u32, rng.below(80) as u32));
    }
    q
}

/// Sweeps lookups over `queries`; returns number of queries or the first failure.
pub fn check_lookups(ctx: &mut Ctx, sm: &SourceMap, toks: &[RawToken], queries: &[(u32, u32)]) -> Result<(), Fail> {
    for &(l, c) in queries {
        ctx.op("lookup_token");
        let got = sm.lookup_token(l, c).map(|t| t.get_raw_token());
        let want = reference_lookup(toks, l, c);
        match (got, want) {
            (None, None) => ctx.bucket("lookup:before-first-token->None"),
            (Some(g), None) => return Err(("lookup-some-before-first".into(), format!("lookup({l},{c}) = {g:?} but no token starts at or before the query"))),
            (None, Some(w)) => return Err(("lookup-none-but-token-precedes".into(), format!("lookup({l},{c}) = None but token #{w} {:?} precedes the query", toks[w]))),
            (Some(g), Some(w)) => {
                let wp = (toks[w].dst_line, toks[w].dst_col);
                if (g.dst_line, g.dst_col) != wp {
                    return Err(("lookup-not-closest".into(), format!("lookup({l},{c}) = token at {:?}, closest preceding position is {:?}", (g.dst_line, g.dst_col), wp)));
                }
                let copies = toks.iter().filter(|t| (t.dst_line, t.dst_col) == wp).count();
                if wp == (l, c) {
                    if g != toks[w] {
                        return Err(("lookup-exact-not-first".into(), format!("lookup({l},{c}) hit the position exactly but returned {g:?}, first token there in iteration order is #{w} {:?}", toks[w])));
                    }
                    ctx.bucket_if(copies >= 3, "lookup:exact-hit-on-position-with>=3-copies");
                    ctx.bucket("lookup:exact-hit");
                } else {
                    if !toks.iter().any(|t| *t == g) {
                        return Err(("lookup-foreign-token".into(), format!("lookup({l},{c}) returned {g:?} which is not a token of the map")));
                    }
                    ctx.bucket_if(l > wp.0, "lookup:from-later-line");
                    ctx.bucket("lookup:inexact-hit");
                }
                ctx.bucket_if(l == u32::MAX || c == u32::MAX, "lookup:u32::MAX-query");
            }
        }
    }
    Ok(())
}

fn tagged_tokens(cells: &[(u32, u32)]) -> Vec<RawToken> {
    cells
        .iter()
        .enumerate()
        .map(|(i, &(l, c))| RawToken { dst_line: l, dst_col: c, src_line: i as u32, src_col: 7, src_id: 0, name_id: !0, is_range: false })
        .collect()
}

fn full_check(ctx: &mut Ctx, stream: &str, n: u64, sm: &SourceMap, rng: &mut Rng, how: &str, data: &dyn Fn() -> Value) -> bool {
    ctx.bucket(&format!("producer:{how}"));
    let r = catch(|| {
        let toks = check_order(sm)?;
        let mut q = queries_for(&toks, rng);
        check_lookups(ctx, sm, &toks, &q)?;
        // and once more in shuffled order on the same object (answers must not depend on history)
        rng.shuffle(&mut q);
        q.truncate(40);
        check_lookups(ctx, sm, &toks, &q)?;
        Ok::<usize, Fail>(toks.len())
    });
    match r {
        Err(p) => {
            ctx.violation(&panic_sig(&p), stream, n, format!("ordering/lookup on a map from {how} panicked: {p}"), data());
            false
        }
        Ok(Err((sig, desc))) => {
            ctx.violation(&sig, stream, n, format!("map from {how}: {desc}"), data());
            false
        }
        Ok(Ok(_)) => true,
    }
}

pub fn run(ctx: &mut Ctx) {
    // ---- exhaustive: every sequence of <= 4 tokens over a 2x3 grid, all grid queries
    let cells: Vec<(u32, u32)> = (0..2).flat_map(|l| (0..3).map(move |c| (l, c))).collect();
    let mut seqs: Vec<Vec<(u32, u32)>> = vec![vec![]];
    let mut frontier: Vec<Vec<(u32, u32)>> = vec![vec![]];
    for _ in 0..4 {
        let mut next = vec![];
        for s in &frontier {
            for &c in &cells {
                let mut t = s.clone();
                t.push(c);
                next.push(t);
            }
        }
        seqs.extend(next.iter().cloned());
        frontier = next;
    }
    let total = seqs.len() as u64 * 2;
    for n in ctx.cases("grid-exhaustive", total) {
        let mut rng = ctx.begin("grid-exhaustive", n);
        let seq = &seqs[(n / 2) as usize];
        let toks = tagged_tokens(seq);
        ctx.eval();
        if seq.len() >= 2 {
            ctx.nontrivial_enumerated(1);
        }
        let sm = if n % 2 == 0 {
            SourceMap::new(None, toks.clone(), vec![], vec!["s".into()], None)
        } else {
            let mut b = sourcemap::SourceMapBuilder::new(None);
            b.add_source("s");
            for t in &toks {
                b.add_raw(t.dst_line, t.dst_col, t.src_line, t.src_col, Some(0), None, false);
            }
            b.into_sourcemap()
        };
        let r = catch(|| {
            let order = check_order(&sm)?;
            let mut q = vec![];
            for l in 0..4u32 {
                for c in 0..5u32 {
                    q.push((l, c));
                }
                q.push((l, u32::MAX));
            }
            q.push((u32::MAX, 0));
            q.push((u32::MAX, u32::MAX));
            check_lookups(ctx, &sm, &order, &q)?;
            Ok::<(), Fail>(())
        });
        let data = || json!({"cells_in_insertion_order": seq, "via": if n % 2 == 0 { "SourceMap::new" } else { "builder" }});
        match r {
            Err(p) => ctx.violation(&panic_sig(&p), "grid-exhaustive", n, format!("panicked: {p}"), data()),
            Ok(Err((sig, desc))) => ctx.violation(&sig, "grid-exhaustive", n, desc, data()),
            Ok(Ok(())) => {}
        }
        if n < 40 {
            ctx.sample(data);
        }
        let _ = &mut rng;
    }
    ctx.exhaustive("every insertion sequence of 0..=4 tokens over a 2x3 grid of generated positions (1555 sequences), built by SourceMap::new and by the builder, x every query on a 4x5 grid plus u32::MAX columns/lines");

    // ---- random maps, lookup only (extreme numbers allowed)
    let total = ctx.size(1_200_000, 8_000_000);
    for n in ctx.cases("maps", total) {
        let mut rng = ctx.begin("maps", n);
        ctx.eval();
        let cfg = GenCfg {
            max_lines: *rng.pick(&[1, 2, 6]),
            max_tokens: *rng.pick(&[1, 6, 30, 80]),
            max_col: *rng.pick(&[3, 20, 60]),
            dup_pos_pct: *rng.pick(&[0, 20, 60, 85]),
            exact_dup_pct: *rng.pick(&[0, 10]),
            big_numbers: rng.chance(1, 3),
            big_lines: rng.chance(1, 3),
            unique_strings: true,
            ..GenCfg::default()
        };
        let m = gen_map(&mut rng, &cfg);
        let how = rng.below(2);
        let built = catch(|| if how == 0 { m.build_raw(&mut rng, true) } else { m.build_builder(&mut rng) });
        let sm = match built {
            Ok(s) => s,
            Err(p) => {
                ctx.violation(&panic_sig(&p), "maps", n, format!("building panicked: {p}"), m.json());
                continue;
            }
        };
        if m.tokens.len() >= 2 {
            ctx.nontrivial(hash_value(&m.json()));
        }
        ctx.bucket_if(m.tokens.is_empty(), "empty-map");
        ctx.bucket_if(m.tokens.len() == 1, "single-token-map");
        ctx.sample(|| m.json());
        full_check(ctx, "maps", n, &sm, &mut rng, ["SourceMap::new", "builder"][how as usize], &|| m.json());
    }

    // ---- histories: chains of map-producing operations, checked at every quiescent point
    let total = ctx.size(160_000, 1_500_000);
    for n in ctx.cases("chains", total) {
        let mut rng = ctx.begin("chains", n);
        ctx.eval();
        let cfg = GenCfg { max_lines: 5, max_tokens: *rng.pick(&[4, 15, 40]), dup_pos_pct: *rng.pick(&[5, 40]), unique_strings: true, ..GenCfg::default() };
        let m = gen_map(&mut rng, &cfg);
        let mut history: Vec<String> = vec!["build".into()];
        let mut cur = match catch(|| m.build_raw(&mut rng, true)) {
            Ok(s) => s,
            Err(p) => {
                ctx.violation(&panic_sig(&p), "chains", n, format!("building panicked: {p}"), m.json());
                continue;
            }
        };
        let len = rng.range_usize(1, 8);
        ctx.nontrivial(crate::rng::mix(hash_value(&m.json()), n));
        let mut ok = full_check(ctx, "chains", n, &cur, &mut rng, "SourceMap::new", &|| json!({"model": m.json(), "history": ["build"]}));
        for _ in 0..len {
            if !ok {
                break;
            }
            let op = rng.below(5);
            let step = catch(|| -> Result<(SourceMap, String), String> {
                match op {
                    0 => {
                        let (o, d) = super::c03::rewrite_opts(&mut rng);
                        Ok((cur.clone().rewrite(&o).map_err(|e| e.to_string())?, format!("rewrite({d})")))
                    }
                    1 => {
                        let mut v = vec![];
                        cur.to_writer(&mut v).map_err(|e| e.to_string())?;
                        match decode_slice(&v).map_err(|e| e.to_string())? {
                            DecodedMap::Regular(s) => Ok((s, "to_writer+decode_slice".into())),
                            _ => Err("decoded to another kind".into()),
                        }
                    }
                    2 => {
                        // index: [other map at (0,0)] [current map at an offset after it]
                        let other = gen_map(&mut rng, &GenCfg { max_lines: 2, max_tokens: 5, unique_strings: true, ..GenCfg::default() });
                        let last = other.tokens.iter().map(|t| (t.dl, t.dc)).max().unwrap_or((0, 0));
                        let off = if rng.bool() { (last.0, last.1 + 1 + rng.below(5) as u32) } else { (last.0 + 1 + rng.below(3) as u32, rng.below(4) as u32) };
                        let idx = SourceMapIndex::new(
                            None,
                            vec![
                                SourceMapSection::new((0, 0), None, Some(DecodedMap::Regular(other.build_raw(&mut rng, true)))),
                                SourceMapSection::new(off, None, Some(DecodedMap::Regular(cur.clone()))),
                            ],
                        );
                        Ok((idx.flatten().map_err(|e| e.to_string())?, format!("flatten(index[other@(0,0), current@{off:?}])")))
                    }
                    3 => {
                        let adj = gen_map(&mut rng, &GenCfg { max_lines: 5, max_tokens: 12, max_col: 60, allow_sourceless: false, unique_strings: true, ..GenCfg::default() });
                        let adj_sm = adj.build_raw(&mut rng, true);
                        let mut c = cur.clone();
                        c.adjust_mappings(&adj_sm);
                        Ok((c, "adjust_mappings(random)".into()))
                    }
                    _ => {
                        // copy through the builder, tokens re-added in reverse order
                        let mut b = sourcemap::SourceMapBuilder::new(cur.get_file());
                        let toks: Vec<_> = cur.tokens().collect();
                        for t in toks.iter().rev() {
                            b.add_token(t, true);
                        }
                        Ok((b.into_sourcemap(), "builder(add_token in reverse)".into()))
                    }
                }
            });
            match step {
                Err(p) => {
                    ctx.violation(&panic_sig(&p), "chains", n, format!("operation #{op} after {history:?} panicked: {p}"), json!({"model": m.json(), "history": history}));
                    ok = false;
                }
                Ok(Err(e)) => {
                    ctx.violation("chain-op-error", "chains", n, format!("operation #{op} after {history:?} failed: {e}"), json!({"model": m.json(), "history": history}));
                    ok = false;
                }
                Ok(Ok((next, what))) => {
                    let how = what.split('(').next().unwrap().to_string();
                    history.push(what);
                    cur = next;
                    let h = history.clone();
                    ok = full_check(ctx, "chains", n, &cur, &mut rng, &how, &|| json!({"model": m.json(), "history": h}));
                }
            }
        }
        ctx.bucket(&format!("chain-length={}", history.len().min(9)));
        if n < 64 {
            ctx.sample(|| json!({"history": history, "tokens": m.tokens.len()}));
        }
    }
}
