//! C19 - make_relative_path leads from the base file to the target.
//!
//! Oracle: resolve the returned path component-wise against the directory containing the
//! base file ('..' pops, '.' and empty components are skipped, a pop on an empty stack is a
//! violation) and compare with the target's components.

use serde_json::json;
use sourcemap::make_relative_path;

use crate::monitor::{catch, panic_sig, Ctx};

const POOL: &[&str] = &["a", "b", "c"];

fn comps(p: &str) -> Vec<&str> {
    p.split(&['/', '\\'][..]).filter(|c| !c.is_empty()).collect()
}

/// Err(reason) if `result` does not lead from `base`'s directory to `target`.
fn check(base: &str, target: &str, result: &str) -> Result<(), String> {
    let mut stack: Vec<&str> = comps(base);
    stack.pop();
    let base_dir = stack.clone();
    let want = comps(target);
    for c in result.split(&['/', '\\'][..]) {
        match c {
            "" | "." => {}
            ".." => {
                if stack.pop().is_none() {
                    return Err("result climbs above the root of the base path".into());
                }
            }
            other => stack.push(other),
        }
    }
    if stack != want {
        return Err(format!("resolves to {:?}, target is {:?}", stack.join("/"), want.join("/")));
    }
    if result == "." && want != base_dir {
        return Err("result is '.' but target is not the base directory".into());
    }
    if result.is_empty() {
        return Err("empty result".into());
    }
    Ok(())
}

fn nth_path(mut k: u64, depth: usize) -> Vec<&'static str> {
    // k-th sequence of length `depth` over POOL
    let mut v = vec![];
    for _ in 0..depth {
        v.push(POOL[(k % 3) as usize]);
        k /= 3;
    }
    v
}

fn all_paths(max_depth: usize) -> Vec<Vec<&'static str>> {
    let mut out = vec![];
    for d in 1..=max_depth {
        for k in 0..3u64.pow(d as u32) {
            out.push(nth_path(k, d));
        }
    }
    out
}

fn one(ctx: &mut Ctx, stream: &str, n: u64, base: &str, target: &str) {
    ctx.eval();
    ctx.op("make_relative_path");
    let b = comps(base);
    let t = comps(target);
    let dir = &b[..b.len() - 1];
    let shared = dir.iter().zip(&t).take_while(|(x, y)| x == y).count();
    let climb = dir.len() - shared;
    let remain = t.len() - shared;
    ctx.bucket(&format!("climb={}", climb.min(2)));
    ctx.bucket(&format!("remain={}", remain.min(3)));
    ctx.bucket_if(shared == 0, "no-shared-prefix");
    ctx.bucket_if(remain == 0 && climb == 0, "target-is-base-dir");
    if shared >= 1 {
        ctx.nontrivial_bytes(format!("{base}\u{0}{target}").as_bytes());
    }
    ctx.sample(|| json!({"base": base, "target": target, "result": catch(|| make_relative_path(base, target)).ok()}));
    match catch(|| make_relative_path(base, target)) {
        Err(p) => ctx.violation(
            &panic_sig(&p),
            stream,
            n,
            format!("make_relative_path({base:?}, {target:?}) panicked: {p}"),
            json!({"base": base, "target": target}),
        ),
        Ok(r) => {
            if let Err(why) = check(base, target, &r) {
                ctx.violation(
                    "wrong-path",
                    stream,
                    n,
                    format!("make_relative_path({base:?}, {target:?}) = {r:?}: {why}"),
                    json!({"base": base, "target": target, "result": r}),
                );
            }
        }
    }
}

pub fn run(ctx: &mut Ctx) {
    // oracle self-test
    assert!(check("/foo/bar/baz.js", "/foo/baz.map", "../baz.map").is_ok());
    assert!(check("/foo/x.js", "/foo/a/b.map", "a/b.map").is_ok());
    assert!(check("/foo/x.js", "/foo/a/b.map", "ab.map").is_err());
    assert!(check("/foo/x.js", "/foo", ".").is_ok());
    assert!(check("/foo/x.js", "/bar", ".").is_err());
    assert!(check("x.js", "a", "../a").is_err());

    // exhaustive: all pairs of paths up to the depth, both absolute and both relative
    let depth = if ctx.quick() { 5 } else { 6 };
    let paths = all_paths(depth);
    let np = paths.len() as u64;
    let total = np * np;
    for n in ctx.cases("exhaustive", total) {
        ctx.begin("exhaustive", n);
        let b = &paths[(n / np) as usize];
        let t = &paths[(n % np) as usize];
        let (bs, ts) = (b.join("/"), t.join("/"));
        one(ctx, "exhaustive", n, &format!("/{bs}"), &format!("/{ts}"));
        one(ctx, "exhaustive", n, &bs, &ts);
    }
    ctx.exhaustive(&format!(
        "all ordered pairs of paths with 1..={depth} components over {{a,b,c}} ({np} paths, {total} pairs), as absolute and as relative '/'-separated paths"
    ));

    // random: deeper, mixed separators, file-like last components, doubled separators
    let total = ctx.size(4_000_000, 40_000_000);
    for n in ctx.cases("random", total) {
        let mut rng = ctx.begin("random", n);
        let abs = rng.bool();
        let mk = |rng: &mut crate::rng::Rng, share: &[String]| -> String {
            let d = rng.range_usize(1, 6);
            let mut c: Vec<String> = share.iter().take(d.saturating_sub(1)).cloned().collect();
            while c.len() < d {
                c.push(rng.pick(&["a", "b", "c", "x.js", "y.map", "dir.d"]).to_string());
            }
            let mut s = String::new();
            for (i, comp) in c.iter().enumerate() {
                if i > 0 || abs {
                    s.push(if rng.chance(1, 5) { '\\' } else { '/' });
                }
                s.push_str(comp);
            }
            s
        };
        let share_len = rng.range_usize(0, 5);
        let share: Vec<String> = (0..share_len).map(|_| rng.pick(POOL).to_string()).collect();
        let base = mk(&mut rng, &share);
        let target = mk(&mut rng, &share);
        one(ctx, "random", n, &base, &target);
    }
}
