//! C05 - untrusted bytes never crash the library.
//!
//! Oracle = the monitor itself: panic hook (arithmetic overflow panics because the `checked`
//! flavour builds the crate with overflow checks), CPU-time watchdog (hang), counting allocator
//! (allocation out of proportion), and the "serialised form decodes again" clause.

use serde_json::json;

use super::c02::{gen_doc, DocCfg};
use super::c05_core::{drive, Stats};
use crate::monitor::{alloc_monitor_active, alloc_peak_since, alloc_reset, catch, panic_sig, Ctx, ALLOC_MAX_REQ, ALLOC_REFUSED};
use crate::reference::json::{jarr, jobj, jstr};
use crate::reference::vlq as rv;
use crate::rng::Rng;

/// Resource bound: peak heap growth during decode + all follow-up actions.
/// 256 bytes per input byte + 16 MiB (observed maximum on the unchanged tree: 1.1 MB for a 92 KB input). The slack covers the one legitimate expansion that is not
/// proportional to the *input* length: a map may be re-serialised with up to 4 x 100000
/// generated lines (the statement's serialisation bound), and decoding that output reserves one
/// 28-byte token slot per separator.
pub fn alloc_bound(len: usize) -> usize {
    256 * len + (16 << 20)
}

fn hostile_num(rng: &mut Rng) -> i128 {
    match rng.below(12) {
        0 => 0,
        1 => 1 << 31,
        2 => (1 << 32) - 1,
        3 => 1 << 32,
        4 => -(1 << 31),
        5 => -((1 << 32) - 1),
        6 => (1i128 << 61) + rng.below(1000) as i128,
        7 => -((1i128 << 61) + rng.below(1000) as i128),
        8 => (1i128 << 62) - 1,
        _ => rng.below(40) as i128 - 8,
    }
}

pub fn hostile_mappings(rng: &mut Rng, n_sources: usize, n_names: usize) -> String {
    let n_lines = *rng.pick(&[0usize, 1, 3, 8, 60, 3000]);
    let n_lines = if n_lines == 3000 && !rng.chance(1, 6) { 5 } else { n_lines };
    let mut out = String::new();
    let (mut sid, mut nid) = (0i128, 0i128);
    let keep_valid = rng.chance(3, 4);
    for li in 0..n_lines {
        if li > 0 {
            out.push(';');
        }
        if rng.chance(1, 3) {
            continue;
        }
        for si in 0..rng.range_usize(0, 6) {
            if si > 0 {
                out.push(',');
            }
            let arity = match rng.below(14) {
                0 => 0,
                1 => 2,
                2 => 3,
                3 => 6,
                4..=6 => 1,
                7..=9 => 5,
                _ => 4,
            };
            let arity = if keep_valid && !matches!(arity, 1 | 4 | 5) { 4 } else { arity };
            let arity = if arity >= 4 && n_sources == 0 && keep_valid { 1 } else if arity == 5 && n_names == 0 && keep_valid { 4 } else { arity };
            let mut vals: Vec<i128> = vec![];
            for f in 0..arity {
                let v = match f {
                    1 if keep_valid => {
                        let target = rng.below(n_sources as u64) as i128;
                        let d = target - sid;
                        sid = target;
                        d
                    }
                    4 if keep_valid => {
                        let target = rng.below(n_names as u64) as i128;
                        let d = target - nid;
                        nid = target;
                        d
                    }
                    _ => hostile_num(rng),
                };
                vals.push(v);
            }
            out.push_str(&rv::encode(&vals));
            if rng.chance(1, 60) {
                out.push_str(rng.pick_str(&["!", "é", "g", " ", "\\u0000", "=="]));
            }
        }
    }
    out
}

fn hostile_value(rng: &mut Rng) -> String {
    rng.pick_str(&[
        "null", "1", "-1", "\"x\"", "[]", "{}", "[null]", "[1,\"a\",{}]", "true", "1e400", "4294967296", "18446744073709551616", "[[]]", "\"\"", "[\"a\",null,3]", "{\"a\":1}", "0.5",
        "[4294967295]", "[-1]", "\"00000000-0000-0000-0000-000000000000\"", "\"not-a-uuid\"",
    ])
    .to_string()
}

fn hostile_fb_sources(rng: &mut Rng, n_sources: usize) -> String {
    let n = match rng.below(5) {
        0 => 0,
        1 => n_sources.saturating_sub(1),
        2 => n_sources + 2,
        _ => n_sources,
    };
    jarr((0..n).map(|_| match rng.below(8) {
        0 => "null".to_string(),
        1 => "[]".to_string(),
        2 => "[{\"names\":[],\"mappings\":\"\"}]".to_string(),
        3 => format!("[{{\"names\":[\"f\"],\"mappings\":{}}}]", jstr(&hostile_mappings(rng, 1, 1))),
        4 => "[{\"names\":[\"a\",\"b\"],\"mappings\":\"AAA,g\"}]".to_string(),
        5 => format!("[{{\"names\":[\"a\"],\"mappings\":{}}}]", jstr(&rv::encode(&[hostile_num(rng), hostile_num(rng), hostile_num(rng)]))),
        _ => "[{\"names\":[\"<global>\",\"f\"],\"mappings\":\"AAA,SCC;EAE\"},{\"names\":[],\"mappings\":\"A\"}]".to_string(),
    }))
}

/// Structure-aware hostile document; returns (text, family labels).
pub fn hostile_doc(rng: &mut Rng, depth: u32) -> (String, Vec<&'static str>) {
    let mut fam: Vec<&'static str> = vec![];
    let cfg = DocCfg { max_lines: *rng.pick(&[1, 4, 20]), max_segs: *rng.pick(&[2, 8]), big: true, allow_index: depth == 0, ..DocCfg::default() };
    let doc = gen_doc(rng, &cfg);
    let mut pairs = doc.body_pairs(rng);
    let n_sources = doc.n_sources();
    let n_names = doc.n_names();
    let tweaks = rng.range_usize(0, 4);
    for _ in 0..tweaks {
        match rng.below(14) {
            0 => {
                if let Some(i) = pairs.iter().position(|p| p.0 == "mappings") {
                    pairs[i].1 = jstr(&hostile_mappings(rng, n_sources, n_names));
                    fam.push("extreme-numbers-in-mappings");
                }
            }
            1 => {
                if !pairs.is_empty() {
                    let i = rng.usize_below(pairs.len());
                    pairs[i].1 = hostile_value(rng);
                    fam.push("wrong-type-for-a-key");
                }
            }
            2 => {
                if !pairs.is_empty() {
                    let i = rng.usize_below(pairs.len());
                    pairs.remove(i);
                    fam.push("missing-key");
                }
            }
            3 => {
                if !pairs.is_empty() {
                    let i = rng.usize_below(pairs.len());
                    let mut p = pairs[i].clone();
                    if rng.bool() {
                        p.1 = hostile_value(rng);
                    }
                    pairs.push(p);
                    fam.push("repeated-key");
                }
            }
            4 => {
                let n = rng.range_usize(0, n_sources + 3);
                pairs.retain(|p| p.0 != "sourcesContent");
                pairs.push(("sourcesContent".into(), jarr((0..n).map(|k| if k % 2 == 0 { "\"c\"".to_string() } else { "null".to_string() }))));
                fam.push("mismatched-array-lengths");
            }
            5 => {
                pairs.retain(|p| p.0 != "x_facebook_sources");
                pairs.push(("x_facebook_sources".into(), hostile_fb_sources(rng, n_sources)));
                fam.push("malformed-hermes-payload");
            }
            6 => {
                // rangeMappings with bits at arbitrary indices / garbage
                let lines: Vec<String> = (0..rng.range_usize(0, 6))
                    .map(|_| match rng.below(5) {
                        0 => String::new(),
                        1 => "!".to_string(),
                        _ => {
                            let mut l = String::new();
                            for _ in 0..rng.range_usize(1, 34) {
                                l.push(rv::ALPHABET[rng.usize_below(64)] as char);
                            }
                            l
                        }
                    })
                    .collect();
                pairs.retain(|p| p.0 != "rangeMappings");
                pairs.push(("rangeMappings".into(), jstr(&lines.join(";"))));
                fam.push("hostile-rangeMappings");
            }
            7 => {
                pairs.retain(|p| p.0 != "ignoreList");
                pairs.push(("ignoreList".into(), jarr((0..rng.range_usize(0, 4)).map(|_| rng.pick_str(&["0", "1", "4294967295", "7", "4294967296", "-1"]).to_string()))));
                fam.push("hostile-ignoreList");
            }
            8 if depth < 3 => {
                // sections with hostile offsets / nesting
                let n = rng.range_usize(0, 4);
                let secs = jarr((0..n).map(|_| {
                    let line = rng.pick_str(&["0", "1", "5", "4294967295", "4294967294", "2147483648", "-1", "4294967296"]);
                    let col = rng.pick_str(&["0", "3", "4294967295", "2147483648", "\"x\""]);
                    let mut p = vec![("offset".to_string(), format!("{{\"line\":{line},\"column\":{col}}}"))];
                    match rng.below(5) {
                        0 => p.push(("url".into(), "\"http://x/y.map\"".into())),
                        1 => p.push(("map".into(), "null".into())),
                        _ => p.push(("map".into(), hostile_doc(rng, depth + 1).0)),
                    }
                    if rng.chance(1, 5) {
                        p.push(("url".into(), "\"both\"".into()));
                    }
                    jobj(&p)
                }));
                pairs.retain(|p| p.0 != "sections");
                pairs.push(("sections".into(), secs));
                fam.push("sections-with-extreme-offsets");
            }
            9 => {
                pairs.retain(|p| p.0 != "x_facebook_offsets" && p.0 != "x_metro_module_paths");
                pairs.push(("x_facebook_offsets".into(), rng.pick_str(&["[]", "[null,1,4294967295]", "[0]", "null", "[\"x\"]"]).to_string()));
                pairs.push(("x_metro_module_paths".into(), rng.pick_str(&["[]", "[\"a\",\"b\"]", "null", "[1]"]).to_string()));
                fam.push("ram-bundle-extensions");
            }
            10 => {
                pairs.retain(|p| p.0 != "debug_id" && p.0 != "debugId");
                pairs.push((rng.pick_str(&["debug_id", "debugId"]).to_string(), rng.pick_str(&["\"\"", "\"x\"", "\"00000000-0000-0000-0000-000000000000-ffffffff\"", "\"FFFFFFFF-FFFF-FFFF-FFFF-FFFFFFFFFFFF\"", "5",
                    // forms the DebugId parser accepts besides hyphenated UUIDs: PDB 2.0 (timestamp + age), unhyphenated, breakpad-like
                    "\"000222220000\"", "\"4a7fe2c3-1\"", "\"0002222200000000000000000000000000\"", "\"DFB8E43AF2423D73A453AEB6A777EF75a\"", "\"dfb8e43a-f242-3d73-a453-aeb6a777ef75-a\""]).to_string()));
                fam.push("hostile-debug-id");
            }
            11 => {
                pairs.retain(|p| p.0 != "version");
                pairs.push(("version".into(), rng.pick_str(&["2", "\"3\"", "4294967296", "-3", "3.0", "null"]).to_string()));
                fam.push("hostile-version");
            }
            _ => {}
        }
    }
    if rng.chance(1, 3) {
        rng.shuffle(&mut pairs);
    }
    (jobj(&pairs), fam)
}

fn deep_sections(depth: usize) -> String {
    let mut s = "{\"version\":3,\"sources\":[\"a\"],\"names\":[],\"mappings\":\"AAAA\"}".to_string();
    for _ in 0..depth {
        s = format!("{{\"version\":3,\"sections\":[{{\"offset\":{{\"line\":0,\"column\":0}},\"map\":{s}}}]}}");
    }
    s
}

fn mutate(rng: &mut Rng, base: &[u8]) -> Vec<u8> {
    let mut b = base.to_vec();
    for _ in 0..rng.range_usize(1, 4) {
        if b.is_empty() {
            break;
        }
        match rng.below(8) {
            0 => {
                let i = rng.usize_below(b.len());
                b[i] ^= 1 << rng.below(8);
            }
            1 => {
                let i = rng.usize_below(b.len() + 1);
                b.insert(i, *rng.pick(b"{}[]\",:;,AgB/+0-9.e \n\r'"));
            }
            2 => {
                let i = rng.usize_below(b.len());
                b.remove(i);
            }
            3 => {
                // splice a piece from elsewhere
                let (i, j) = (rng.usize_below(b.len()), rng.usize_below(b.len()));
                let len = rng.range_usize(1, 24).min(b.len() - j);
                let piece: Vec<u8> = b[j..j + len].to_vec();
                let at = i.min(b.len());
                b.splice(at..at, piece);
            }
            4 => {
                let i = rng.usize_below(b.len());
                b.truncate(i);
            }
            5 => {
                // replace a number by an extreme one
                if let Some(start) = (0..b.len()).cycle().skip(rng.usize_below(b.len())).take(b.len()).find(|&i| b[i].is_ascii_digit()) {
                    let mut end = start;
                    while end < b.len() && b[end].is_ascii_digit() {
                        end += 1;
                    }
                    let repl = rng.pick_str(&["0", "4294967295", "4294967296", "2147483648", "-1", "99999999999999999999", "1e9"]);
                    b.splice(start..end, repl.bytes());
                }
            }
            6 => {
                // replace a run inside a mappings-looking stretch with continuation digits
                let i = rng.usize_below(b.len());
                let run = rng.range_usize(1, 16);
                for k in 0..run {
                    if i + k < b.len() && (b[i + k].is_ascii_alphanumeric() || b[i + k] == b'+' || b[i + k] == b'/') {
                        b[i + k] = *rng.pick(b"ghijklmnopqrstuvwxyz0123456789+/");
                    }
                }
            }
            _ => {
                let i = rng.usize_below(b.len());
                b[i] = rng.next_u32() as u8;
            }
        }
    }
    b
}

fn load_fixtures() -> Vec<(String, Vec<u8>)> {
    let mut out = vec![];
    let mut stack = vec![std::path::PathBuf::from("/repo/tests/fixtures")];
    while let Some(d) = stack.pop() {
        if let Ok(rd) = std::fs::read_dir(&d) {
            let mut entries: Vec<_> = rd.filter_map(Result::ok).map(|e| e.path()).collect();
            entries.sort();
            for p in entries {
                if p.is_dir() {
                    stack.push(p);
                } else if let Ok(b) = std::fs::read(&p) {
                    if b.len() < 100_000 {
                        out.push((p.display().to_string(), b));
                    }
                }
            }
        }
    }
    out.sort();
    out
}

pub fn run_one(ctx: &mut Ctx, stream: &str, n: u64, bytes: &[u8], label: &str) {
    ctx.eval();
    let mut st = Stats { ops: 0, ok_kind: None, err_after_json: false, post_actions: 0 };
    let base = alloc_reset();
    ALLOC_REFUSED.store(0, std::sync::atomic::Ordering::Relaxed);
    let r = catch(|| drive(bytes, &mut st));
    let peak = alloc_peak_since(base);
    let data = || {
        let text = String::from_utf8_lossy(&bytes[..bytes.len().min(6000)]).to_string();
        json!({"layer": label, "len": bytes.len(), "bytes_utf8_lossy": text, "bytes_hex_prefix": bytes.iter().take(200).map(|b| format!("{b:02x}")).collect::<String>()})
    };
    ctx.op_n("entry-points", st.ops);
    ctx.op_n("post-decode-actions", st.post_actions);
    match &st.ok_kind {
        Some(k) => {
            ctx.bucket(&format!("decoded-ok:{k}"));
            ctx.bucket(&format!("decoded-ok-in:{}", label.split(':').next().unwrap()));
            ctx.nontrivial(crate::rng::fnv1a(bytes));
        }
        None => {
            if st.err_after_json {
                ctx.bucket("rejected-by-the-crate's-own-logic");
                ctx.nontrivial(crate::rng::fnv1a(bytes));
            } else {
                ctx.bucket("rejected-as-json");
            }
        }
    }
    match r {
        Err(p) => ctx.violation(&panic_sig(&p), stream, n, format!("panic on untrusted input ({label}, {} bytes, decoded: {:?}): {p}", bytes.len(), st.ok_kind), data()),
        Ok(Err(e)) => ctx.violation(if e.contains("does not decode again") { "serialised-form-does-not-decode" } else { "operation-failed-on-decoded-map" }, stream, n, format!("{e} ({label})"), data()),
        Ok(Ok(())) => {}
    }
    if alloc_monitor_active() {
        let refused = ALLOC_REFUSED.load(std::sync::atomic::Ordering::Relaxed);
        if refused > 0 {
            ctx.violation("allocation-over-1GiB", stream, n, format!("a single allocation of {refused} bytes was requested for a {}-byte input", bytes.len()), data());
        } else if peak > alloc_bound(bytes.len()) {
            ctx.violation("allocation-out-of-proportion", stream, n, format!("peak heap growth {peak} bytes for a {}-byte input (bound {})", bytes.len(), alloc_bound(bytes.len())), data());
        }
        let ratio = peak as u64 / (bytes.len() as u64 + 64);
        ctx.note_max("max_peak_bytes", peak as u64);
        ctx.note_max("max_peak_bytes_per_(input_byte+64)", ratio);
        ctx.note_max("max_single_allocation", ALLOC_MAX_REQ.load(std::sync::atomic::Ordering::Relaxed) as u64);
    }
}

pub fn run(ctx: &mut Ctx) {
    ctx.set_case_cpu_limit(60);
    if ctx.mode == "emit-corpus" {
        // seed corpus for the libFuzzer target: fixtures + structure-aware hostile documents
        let dir = std::env::var("SMV_DIR").expect("SMV_DIR");
        std::fs::create_dir_all(&dir).unwrap();
        for (i, (_, b)) in load_fixtures().iter().enumerate() {
            if b.len() <= 16 * 1024 {
                std::fs::write(format!("{dir}/fixture-{i}"), b).unwrap();
            }
        }
        for n in 0..600u64 {
            let mut rng = ctx.begin("corpus", n);
            let (text, _) = hostile_doc(&mut rng, 0);
            std::fs::write(format!("{dir}/hostile-{n}"), text).unwrap();
            ctx.eval();
        }
        ctx.nontrivial(1);
        ctx.nontrivial(2);
        ctx.sample(|| json!({"corpus_dir": dir}));
        return;
    }
    if ctx.mode == "files" {
        // replay of inputs found elsewhere (libFuzzer artifacts) through the monitor
        let dir = std::env::var("SMV_DIR").expect("SMV_DIR");
        let mut files: Vec<_> = std::fs::read_dir(&dir).map(|d| d.filter_map(Result::ok).map(|e| e.path()).collect()).unwrap_or_default();
        files.sort();
        for n in ctx.cases_unsharded("files", files.len() as u64) {
            ctx.begin("files", n);
            if let Ok(b) = std::fs::read(&files[n as usize]) {
                run_one(ctx, "files", n, &b, &format!("file:{}", files[n as usize].display()));
            }
        }
        ctx.nontrivial(1);
        ctx.nontrivial(2);
        ctx.sample(|| json!({"files": files.len()}));
        return;
    }
    let small = matches!(ctx.mode.as_str(), "miri");
    let fixtures = load_fixtures();
    ctx.note("fixtures_loaded", json!(fixtures.len()));

    // L1: raw random bytes
    let total = if small { 32 } else { ctx.size(60_000, 4_000_000) };
    for n in ctx.cases("L1-random-bytes", total) {
        let mut rng = ctx.begin("L1-random-bytes", n);
        let len = rng.range_usize(0, 64);
        let b: Vec<u8> = match rng.below(3) {
            0 => (0..len).map(|_| rng.next_u32() as u8).collect(),
            1 => (0..len).map(|_| *rng.pick(b"{}[]\":,0123456789 aemnpsrgv.\\")).collect(),
            _ => {
                let mut v = b")]}'\n".to_vec();
                v.extend((0..len).map(|_| *rng.pick(b"{}[]\":, \r\n")));
                v
            }
        };
        run_one(ctx, "L1-random-bytes", n, &b, "L1:random-bytes");
    }

    // L2: byte-level mutations of the repository fixtures and of generated documents
    let total = if small { 32 } else { ctx.size(60_000, 4_000_000) };
    for n in ctx.cases("L2-mutations", total) {
        let mut rng = ctx.begin("L2-mutations", n);
        let (label, base): (String, Vec<u8>) = if !fixtures.is_empty() && rng.chance(1, 3) && !small {
            let f = &fixtures[rng.usize_below(fixtures.len())];
            (format!("L2:mutated-fixture:{}", f.0.rsplit('/').next().unwrap_or("")), f.1.clone())
        } else {
            let cfg = DocCfg { max_lines: 4, max_segs: 5, big: rng.bool(), ..DocCfg::default() };
            ("L2:mutated-generated-document".to_string(), gen_doc(&mut rng, &cfg).text(&mut rng).into_bytes())
        };
        let b = if rng.chance(1, 10) { base } else { mutate(&mut rng, &base) };
        ctx.bucket(if label.contains("fixture") { "L2:fixture" } else { "L2:generated" });
        run_one(ctx, "L2-mutations", n, &b, &label);
    }

    // L3: structure-aware hostile documents
    let total = if small { 48 } else { ctx.size(120_000, 8_000_000) };
    for n in ctx.cases("L3-hostile-documents", total) {
        let mut rng = ctx.begin("L3-hostile-documents", n);
        let (text, fam) = hostile_doc(&mut rng, 0);
        for f in &fam {
            ctx.bucket(&format!("L3:{f}"));
        }
        if n < 64 {
            ctx.sample(|| json!({"text": text, "families": fam}));
        }
        run_one(ctx, "L3-hostile-documents", n, text.as_bytes(), &format!("L3:{}", fam.join("+")));
    }

    // L3b: sections nested to depth 1..200 (beyond serde_json's recursion limit)
    if ctx.shard == 0 || ctx.only.is_some() {
        for n in ctx.cases_unsharded("L3-deep-sections", if small { 2 } else { 60 }) {
            ctx.begin("L3-deep-sections", n);
            let depth = if n < 40 { n as usize + 1 } else { 40 + (n as usize - 40) * 8 };
            ctx.bucket("L3:deeply-nested-sections");
            run_one(ctx, "L3-deep-sections", n, deep_sections(depth).as_bytes(), &format!("L3:sections-nested-{depth}-deep"));
        }
        // the fixtures themselves, unmodified
        for (i, (name, b)) in fixtures.iter().enumerate() {
            if small {
                continue;
            }
            ctx.begin("fixtures", i as u64);
            run_one(ctx, "fixtures", i as u64, b, &format!("fixture:{}", name.rsplit('/').next().unwrap_or("")));
        }
    }
}
