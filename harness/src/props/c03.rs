//! C03 - encoder output is valid v3 that an independent reader decodes identically.
//!
//! Oracle: serde_json parses the bytes; the `mappings` string is read by the strict reference
//! decoder and must give the map's own token list (ids, not strings), after removing exact
//! consecutive duplicates on both sides; the other keys must carry the accessor values and the
//! optional ones must be absent (not null) when the map has no value.

use serde_json::{json, Value};
use sourcemap::{DecodedMap, RewriteOptions, SourceMap, SourceMapIndex, SourceMapSection};

use crate::model::*;
use crate::monitor::{catch, hash_value, panic_sig, Ctx};
use crate::observe::{observe, Obs, ObsMap};
use crate::reference::mappings as refmap;
use crate::rng::Rng;

type Fail = (String, String);

fn fail<T>(sig: &str, desc: String) -> Result<T, Fail> {
    Err((sig.to_string(), desc))
}

fn opt_str(v: Option<&Value>, key: &str) -> Result<Option<String>, Fail> {
    match v {
        None => Ok(None),
        Some(Value::String(s)) => Ok(Some(s.clone())),
        Some(Value::Null) => fail(&format!("null-instead-of-absent:{key}"), format!("key {key:?} is written as null instead of being left out")),
        Some(other) => fail(&format!("wrong-type:{key}"), format!("key {key:?} has value {other}")),
    }
}

/// id-level token of the real map, as the statement lists it
fn id_tokens(o: &ObsMap) -> Vec<(u32, u32, Option<(u32, u32, u32, Option<u32>)>)> {
    let mut out: Vec<(u32, u32, Option<(u32, u32, u32, Option<u32>)>)> = vec![];
    for t in &o.tokens {
        let s = if t.has_source {
            Some((t.src_id, t.sl, t.sc, if t.name.is_some() { Some(t.name_id) } else { None }))
        } else {
            None
        };
        let x = (t.dl, t.dc, s);
        if out.last() != Some(&x) {
            out.push(x);
        }
    }
    out
}

pub fn check_map_object(doc: &Value, o: &ObsMap, allow_range: bool) -> Result<(), Fail> {
    let obj = match doc.as_object() {
        Some(o) => o,
        None => return fail("not-an-object", "serialised map is not a JSON object".into()),
    };
    if obj.get("version") != Some(&json!(3)) {
        return fail("version", format!("version is {:?}", obj.get("version")));
    }
    let arr_of_str = |key: &str, nullable: bool| -> Result<Option<Vec<Option<String>>>, Fail> {
        match obj.get(key) {
            None => Ok(None),
            Some(Value::Array(a)) => {
                let mut out = vec![];
                for e in a {
                    match e {
                        Value::String(s) => out.push(Some(s.clone())),
                        Value::Null if nullable => out.push(None),
                        other => return fail(&format!("wrong-type:{key}"), format!("{key} contains {other}")),
                    }
                }
                Ok(Some(out))
            }
            Some(Value::Null) => fail(&format!("null-instead-of-absent:{key}"), format!("key {key:?} is null")),
            Some(other) => fail(&format!("wrong-type:{key}"), format!("{key} is {other}")),
        }
    };
    let sources = arr_of_str("sources", false)?.unwrap_or_default();
    let names = arr_of_str("names", false)?.unwrap_or_default();
    let root = opt_str(obj.get("sourceRoot"), "sourceRoot")?;
    let file = opt_str(obj.get("file"), "file")?;
    let debug_id = opt_str(obj.get("debug_id"), "debug_id")?;
    if root != o.root {
        return fail("sourceRoot", format!("sourceRoot {:?}, map says {:?}", root, o.root));
    }
    if file != o.file {
        return fail("file", format!("file {:?}, map says {:?}", file, o.file));
    }
    if debug_id != o.debug_id {
        return fail("debug_id", format!("debug_id {:?}, map says {:?}", debug_id, o.debug_id));
    }
    // The statement asks for 'debug_id' to carry the map's value; an additional 'debugId' alias is not
    // excluded by it as long as every reader sees the same id through either key.
    if let Some(alias) = obj.get("debugId") {
        if alias.as_str().map(str::to_string) != o.debug_id {
            return fail("debugId-key", format!("encoder wrote a debugId alias {alias} that differs from the map's debug id {:?}", o.debug_id));
        }
    }
    if sources.len() != o.sources.len() {
        return fail("sources-length", format!("{} sources written, map has {}", sources.len(), o.sources.len()));
    }
    for (i, s) in sources.iter().enumerate() {
        let joined = join_root(root.as_deref(), s.as_deref().unwrap_or(""));
        if joined != o.sources[i] {
            return fail("sources-join", format!("sources[{i}]={s:?} with sourceRoot {root:?} joins to {joined:?}, map says {:?}", o.sources[i]));
        }
    }
    let names: Vec<String> = names.into_iter().map(|n| n.unwrap_or_default()).collect();
    if names != o.names {
        return fail("names", format!("names {:?}, map says {:?}", names, o.names));
    }
    match arr_of_str("sourcesContent", true)? {
        None => {
            if o.contents.iter().any(Option::is_some) {
                return fail("sourcesContent-missing", "map has contents but sourcesContent is absent".into());
            }
        }
        Some(c) => {
            if o.contents.iter().all(Option::is_none) {
                return fail("sourcesContent-present", "map has no contents but sourcesContent is written".into());
            }
            if c != o.contents {
                return fail("sourcesContent", format!("sourcesContent {:?}, map says {:?}", c, o.contents));
            }
        }
    }
    match obj.get("ignoreList") {
        None => {
            if !o.ignore.is_empty() {
                return fail("ignoreList-missing", "map has an ignore list but ignoreList is absent".into());
            }
        }
        Some(Value::Array(a)) => {
            let got: Option<Vec<u32>> = a.iter().map(|v| v.as_u64().map(|x| x as u32)).collect();
            if o.ignore.is_empty() {
                return fail("ignoreList-present", "map has no ignore list but ignoreList is written".into());
            }
            // as a set: the statement fixes which ids the key carries, not their order
            let got = got.map(|mut g| {
                g.sort_unstable();
                g.dedup();
                g
            });
            if got.as_ref() != Some(&o.ignore) {
                return fail("ignoreList", format!("ignoreList {:?}, map says {:?}", a, o.ignore));
            }
        }
        Some(Value::Null) => return fail("null-instead-of-absent:ignoreList", "ignoreList is null".into()),
        Some(other) => return fail("wrong-type:ignoreList", format!("ignoreList is {other}")),
    }
    if !allow_range && obj.contains_key("rangeMappings") && o.tokens.iter().all(|t| !t.range) {
        return fail("rangeMappings-present", "map has no range token but rangeMappings is written".into());
    }
    let mappings = match obj.get("mappings") {
        Some(Value::String(s)) => s,
        other => return fail("mappings-key", format!("mappings is {other:?}")),
    };
    let decoded = match refmap::decode(mappings, sources.len(), names.len()) {
        Ok(d) => d,
        Err(e) => return fail("mappings-invalid", format!("reference decoder rejects mappings {mappings:?}: {e:?}")),
    };
    let mut got: Vec<(u32, u32, Option<(u32, u32, u32, Option<u32>)>)> = vec![];
    for (t, _) in &decoded {
        let conv = |x: i128| -> Result<u32, Fail> {
            u32::try_from(x).map_err(|_| ("mappings-out-of-u32".to_string(), format!("mappings {mappings:?} decodes to a value outside 0..2^32: {x}")))
        };
        let s = match t.src {
            Some(s) => Some((conv(s.id)?, conv(s.line)?, conv(s.col)?, s.name.map(conv).transpose()?)),
            None => None,
        };
        let x = (conv(t.dl)?, conv(t.dc)?, s);
        if got.last() != Some(&x) {
            got.push(x);
        }
    }
    let want = id_tokens(o);
    if got != want {
        let i = got.iter().zip(&want).position(|(a, b)| a != b).unwrap_or(got.len().min(want.len()));
        return fail(
            "mappings-tokens",
            format!("mappings decode to {} tokens, map has {}; first difference at #{i}: decoded {:?}, map {:?}", got.len(), want.len(), got.get(i), want.get(i)),
        );
    }
    Ok(())
}

pub fn check_doc(doc: &Value, o: &Obs, allow_range: bool) -> Result<(), Fail> {
    match o {
        Obs::Map(m) => {
            if doc.get("sections").is_some() {
                return fail("kind", "regular map serialised with sections".into());
            }
            if m.hermes != doc.get("x_facebook_sources").is_some() {
                return fail("kind", "x_facebook_sources presence does not match the map kind".into());
            }
            check_map_object(doc, m, allow_range)
        }
        Obs::Index { file, sections, .. } => {
            if doc.get("version") != Some(&json!(3)) {
                return fail("version", format!("index version is {:?}", doc.get("version")));
            }
            if opt_str(doc.get("file"), "file")? != *file {
                return fail("file", "index file differs".into());
            }
            let secs = match doc.get("sections") {
                Some(Value::Array(a)) => a,
                other => return fail("sections-key", format!("sections is {other:?}")),
            };
            if secs.len() != sections.len() {
                return fail("sections-length", format!("{} sections written, index has {}", secs.len(), sections.len()));
            }
            for (i, (sd, so)) in secs.iter().zip(sections).enumerate() {
                let line = sd.pointer("/offset/line").and_then(Value::as_u64);
                let col = sd.pointer("/offset/column").and_then(Value::as_u64);
                if line != Some(u64::from(so.offset.0)) || col != Some(u64::from(so.offset.1)) {
                    return fail("section-offset", format!("section {i} offset written as {:?}, index says {:?}", sd.get("offset"), so.offset));
                }
                let url = match sd.get("url") {
                    None | Some(Value::Null) => None,
                    Some(Value::String(s)) => Some(s.clone()),
                    Some(other) => return fail("section-url", format!("section {i} url is {other}")),
                };
                if url != so.url {
                    return fail("section-url", format!("section {i} url {:?}, index says {:?}", url, so.url));
                }
                match (sd.get("map"), &so.map) {
                    (None | Some(Value::Null), None) => {}
                    (Some(md), Some(mo)) if !md.is_null() => check_doc(md, mo, allow_range).map_err(|(s, d)| (s, format!("section {i}: {d}")))?,
                    _ => return fail("section-map", format!("section {i}: embedded map presence differs")),
                }
            }
            Ok(())
        }
    }
}

pub fn check_real(real: &DecodedMap, allow_range: bool) -> Result<(), Fail> {
    let bytes = super::c01::ser(real).map_err(|e| ("serialise-error".to_string(), e))?;
    let doc: Value = serde_json::from_slice(&bytes).map_err(|e| ("invalid-json".to_string(), format!("serde_json rejects the output: {e}")))?;
    check_doc(&doc, &observe(real), allow_range).map_err(|(s, d)| (s, format!("{d}; bytes: {}", String::from_utf8_lossy(&bytes[..bytes.len().min(1500)]))))
}

pub const PREFIX_SETS: &[&[&str]] = &[&[], &["/abs"], &["/abs/"], &["/abs/y", "/abs"], &["/nomatch"], &["~"], &["src"], &["http://h"], &["~", "/abs"]];

pub fn rewrite_opts<'a>(rng: &mut Rng) -> (RewriteOptions<'a>, String) {
    let p = *rng.pick(PREFIX_SETS);
    let o = RewriteOptions { with_names: rng.bool(), with_source_contents: rng.bool(), strip_prefixes: p, ..Default::default() };
    let d = format!("names={} contents={} strip={:?}", o.with_names, o.with_source_contents, p);
    (o, d)
}

/// A map produced by one of the transforming operations from random inputs.
fn produce(rng: &mut Rng) -> (DecodedMap, String, Value) {
    let cfg = super::c01::gen_cfg(rng);
    match rng.below(4) {
        3 => {
            // in-place setters on a finished map (root, sources, contents), in random order
            let m = gen_map(rng, &cfg);
            let mut sm = m.build_raw(rng, true);
            let n = sm.get_source_count();
            for _ in 0..rng.range_usize(1, 5) {
                match rng.below(3) {
                    0 => sm.set_source_root(if rng.chance(1, 4) { None } else { Some(rng.pick(ROOT_POOL).to_string()) }),
                    1 if n > 0 => sm.set_source(rng.below(u64::from(n)) as u32, rng.pick_str(SOURCE_POOL)),
                    _ if n > 0 => sm.set_source_contents(rng.below(u64::from(n)) as u32, if rng.bool() { Some(rng.pick_str(CONTENT_POOL)) } else { None }),
                    _ => {}
                }
            }
            (DecodedMap::Regular(sm), "setters".into(), m.json())
        }
        0 => {
            let m = gen_map(rng, &cfg);
            let sm = m.build_raw(rng, true);
            let (opts, d) = rewrite_opts(rng);
            let out = sm.rewrite(&opts).expect("rewrite without local loading cannot fail");
            (DecodedMap::Regular(out), format!("rewrite({d})"), m.json())
        }
        1 => {
            let mut cfg = cfg.clone();
            cfg.max_tokens = cfg.max_tokens.min(10);
            cfg.big_numbers = false;
            let mut i = gen_index(rng, &cfg, 1);
            for s in i.sections.iter_mut() {
                if s.map.is_none() {
                    s.map = Some(SecMap::Regular(gen_map(rng, &cfg)));
                }
            }
            fill_unresolved(&mut i, rng, &cfg);
            let idx = i.build(rng);
            let flat = idx.flatten().expect("all sections resolved");
            (DecodedMap::Regular(flat), "flatten".into(), i.json())
        }
        _ => {
            let mut cfg = cfg.clone();
            cfg.big_numbers = false;
            let a = gen_map(rng, &cfg);
            let b = gen_map(rng, &cfg);
            let mut sa = a.build_raw(rng, true);
            let sb = b.build_raw(rng, true);
            sa.adjust_mappings(&sb);
            (DecodedMap::Regular(sa), "adjust_mappings".into(), json!({"a": a.json(), "b": b.json()}))
        }
    }
}

pub fn fill_unresolved(i: &mut IndexModel, rng: &mut Rng, cfg: &GenCfg) {
    for s in i.sections.iter_mut() {
        match s.map.as_mut() {
            None => s.map = Some(SecMap::Regular(gen_map(rng, cfg))),
            Some(SecMap::Index(inner)) => fill_unresolved(inner, rng, cfg),
            _ => {}
        }
    }
}

pub fn run(ctx: &mut Ctx) {
    let mut srng = Rng::new(ctx.seed ^ 0xC03);
    crate::reference::vlq::self_check(&mut srng, 2000);
    crate::reference::mappings::self_check(&mut srng, 500);

    let total = ctx.size(600_000, 6_000_000);
    for n in ctx.cases("maps", total) {
        let mut rng = ctx.begin("maps", n);
        ctx.eval();
        let transformed = rng.chance(2, 5);
        let built = catch(|| {
            if transformed {
                let (real, how, mj) = produce(&mut rng);
                (real, how, mj, true)
            } else {
                let (model, real, how) = super::c01::gen_case(&mut rng);
                (real, how.to_string(), model.json(), false)
            }
        });
        let (real, how, mj, _) = match built {
            Ok(x) => x,
            Err(p) => {
                ctx.violation(&panic_sig(&p), "maps", n, format!("producing the map panicked: {p}"), json!({}));
                continue;
            }
        };
        ctx.bucket(&format!("producer:{}", how.split('(').next().unwrap()));
        if let DecodedMap::Regular(sm) = &real {
            ctx.bucket_if(sm.get_file().is_none() && sm.get_source_root().is_none() && sm.get_debug_id().is_none() && sm.ignore_list().next().is_none() && sm.source_contents().all(|c| c.is_none()), "map-with-every-optional-absent");
            ctx.bucket_if(sm.get_file().is_some() && sm.get_source_root().is_some() && sm.get_debug_id().is_some() && sm.ignore_list().next().is_some() && sm.source_contents().any(|c| c.is_some()), "map-with-every-optional-present");
            if sm.get_token_count() >= 2 {
                ctx.nontrivial(hash_value(&mj));
            }
        } else if let DecodedMap::Index(i) = &real {
            ctx.bucket_if(i.sections().any(|s| matches!(s.get_sourcemap(), Some(DecodedMap::Index(_)))), "index-with-nested-index");
            if i.get_section_count() >= 1 {
                ctx.nontrivial(hash_value(&mj));
            }
        } else {
            ctx.nontrivial(hash_value(&mj));
        }
        ctx.sample(|| json!({"producer": how, "input": mj}));
        ctx.op("to_writer");
        match catch(|| check_real(&real, false)) {
            Err(p) => ctx.violation(&panic_sig(&p), "maps", n, format!("serialising/observing a map from {how} panicked: {p}"), mj),
            Ok(Err((sig, desc))) => ctx.violation(&sig, "maps", n, format!("map from {how}: {desc}"), mj),
            Ok(Ok(())) => {}
        }
    }
    let _ = (SourceMap::from_slice, SourceMapIndex::from_slice, SourceMapSection::new);
}
