//! C11 - VLQ encoding and decoding are exact inverses and match the standard.

use serde_json::json;
use sourcemap::vlq::{generate_vlq_segment, parse_vlq_segment};

use crate::monitor::{catch, panic_sig, Ctx};
use crate::reference::vlq as rv;
use crate::rng::Rng;

const LIMIT: i128 = 1 << 62;

fn in_domain(vals: &[i128]) -> bool {
    vals.iter().all(|v| v.abs() < LIMIT)
}

/// encode -> compare with reference text -> decode -> compare with the list; then the
/// canonical-text direction generate(parse(t)) == t.
fn check_list(ctx: &mut Ctx, stream: &str, n: u64, vals: &[i64]) {
    ctx.op("generate_vlq_segment");
    ctx.op("parse_vlq_segment");
    let refvals: Vec<i128> = vals.iter().map(|&v| i128::from(v)).collect();
    let want = rv::encode(&refvals);
    let got = catch(|| generate_vlq_segment(vals));
    let text = match got {
        Err(p) => {
            ctx.violation(&panic_sig(&p), stream, n, format!("generate_vlq_segment({vals:?}) panicked: {p}"), json!({"values": vals}));
            return;
        }
        Ok(Err(e)) => {
            ctx.violation("encode-error", stream, n, format!("generate_vlq_segment({vals:?}) = Err({e})"), json!({"values": vals}));
            return;
        }
        Ok(Ok(t)) => t,
    };
    if text != want {
        ctx.violation("encode-nonstandard", stream, n, format!("generate_vlq_segment({vals:?}) = {text:?}, standard says {want:?}"), json!({"values": vals, "got": text, "want": want}));
        return;
    }
    match catch(|| parse_vlq_segment(&text)) {
        Err(p) => ctx.violation(&panic_sig(&p), stream, n, format!("parse_vlq_segment({text:?}) panicked: {p}"), json!({"text": text})),
        Ok(Err(e)) => ctx.violation("roundtrip-error", stream, n, format!("parse_vlq_segment({text:?}) = Err({e}) for encoded {vals:?}"), json!({"values": vals, "text": text})),
        Ok(Ok(back)) => {
            if back != vals {
                ctx.violation("roundtrip-values", stream, n, format!("parse(generate({vals:?})) = {back:?}"), json!({"values": vals, "text": text, "back": back}));
                return;
            }
            // canonical text direction
            if let Ok(Ok(again)) = catch(|| generate_vlq_segment(&back)) {
                if again != text {
                    ctx.violation("canonical-text", stream, n, format!("generate(parse({text:?})) = {again:?}"), json!({"text": text, "again": again}));
                }
            }
        }
    }
}

/// A string over the base64 alphabet: decoder must agree with the reference.
fn check_string(ctx: &mut Ctx, stream: &str, n: u64, s: &str) {
    ctx.op("parse_vlq_segment");
    let want = rv::decode(s.as_bytes());
    let got = match catch(|| parse_vlq_segment(s)) {
        Err(p) => {
            ctx.violation(&panic_sig(&p), stream, n, format!("parse_vlq_segment({s:?}) panicked: {p}"), json!({"text": s}));
            return;
        }
        Ok(r) => r,
    };
    match (&want, &got) {
        (Err(rv::VlqErr::Unterminated), Ok(v)) => {
            ctx.violation("accepts-unterminated", stream, n, format!("parse_vlq_segment({s:?}) = Ok({v:?}) but the last value is cut off"), json!({"text": s}))
        }
        (Err(rv::VlqErr::Empty), Ok(v)) => ctx.violation("accepts-empty", stream, n, format!("parse_vlq_segment({s:?}) = Ok({v:?})"), json!({"text": s})),
        (Err(rv::VlqErr::TooLong), Ok(v)) => {
            ctx.violation("accepts-14-digits", stream, n, format!("parse_vlq_segment({s:?}) = Ok({v:?}) but a value has more than 13 digits"), json!({"text": s}))
        }
        (Err(rv::VlqErr::Foreign(_)), _) => unreachable!("strings are over the alphabet"),
        (Err(e), Err(_)) => {
            ctx.bucket(match e {
                rv::VlqErr::Unterminated => "err:unterminated",
                rv::VlqErr::Empty => "err:empty",
                rv::VlqErr::TooLong => "err:14-digits",
                rv::VlqErr::Foreign(_) => "err:foreign",
            });
        }
        (Ok(w), Ok(g)) => {
            if in_domain(w) {
                let g128: Vec<i128> = g.iter().map(|&v| i128::from(v)).collect();
                if &g128 != w {
                    ctx.violation("decode-values", stream, n, format!("parse_vlq_segment({s:?}) = {g:?}, standard says {w:?}"), json!({"text": s, "got": g, "want": w.iter().map(|v| v.to_string()).collect::<Vec<_>>()}));
                }
                ctx.bucket_if(w.iter().any(|v| v.abs() >= 1 << 32), "value>=2^32");
                ctx.bucket_if(s.len() >= 13 && w.len() == 1, "13-digit-value");
            } else {
                ctx.bucket("out_of_domain(13 digits, |v|>=2^62): only no-panic required");
            }
        }
        (Ok(w), Err(e)) => {
            if in_domain(w) {
                ctx.violation("rejects-valid", stream, n, format!("parse_vlq_segment({s:?}) = Err({e}), standard says {w:?}"), json!({"text": s}));
            } else {
                ctx.bucket("out_of_domain(13 digits, |v|>=2^62): only no-panic required");
            }
        }
    }
}

fn nth_b64(mut k: u64, len: usize) -> String {
    let mut s = String::with_capacity(len);
    for _ in 0..len {
        s.push(rv::ALPHABET[(k % 64) as usize] as char);
        k /= 64;
    }
    s
}

fn rand_val(rng: &mut Rng) -> i64 {
    let bits = rng.range(0, 61);
    let mag = if bits == 0 { 0 } else { (rng.next_u64() >> (64 - bits)) as i64 };
    let mag = if rng.chance(1, 10) { (1i64 << bits) - rng.below(2) as i64 } else { mag };
    if rng.bool() {
        mag
    } else {
        -mag
    }
}

pub fn run(ctx: &mut Ctx) {
    let mut srng = Rng::new(ctx.seed ^ 0xC11);
    let xc = rv::self_check(&mut srng, 20_000);
    ctx.note("reference_crosschecked_against_vlq_crate", json!(xc));

    // 1. contiguous window of integers, each as a singleton list
    let (lo, hi): (i64, i64) = if ctx.quick() { (-(1 << 25), 1 << 25) } else { (-((1i64 << 32) - 1), (1i64 << 32) - 1) };
    let (lo, hi) = if ctx.scale_pct < 100 { (lo * ctx.scale_pct as i64 / 100, hi * ctx.scale_pct as i64 / 100) } else { (lo, hi) };
    let total = (hi - lo + 1) as u64;
    // chunked so that the watchdog sees progress and sharding stays balanced
    let chunk = 1u64 << 16;
    let nchunks = total.div_ceil(chunk);
    for c in ctx.cases("window", nchunks) {
        ctx.begin("window", c);
        let start = lo + (c * chunk) as i64;
        let end = std::cmp::min(hi, start + chunk as i64 - 1);
        let before = ctx.violation_count();
        let mut buf = String::new();
        for v in start..=end {
            // hot loop: inline comparison, fall back to the reporting path on any mismatch
            buf.clear();
            rv::encode_one(&mut buf, i128::from(v));
            let ok = match (generate_vlq_segment(&[v]), parse_vlq_segment(&buf)) {
                (Ok(t), Ok(p)) => t == buf && p.len() == 1 && p[0] == v,
                _ => false,
            };
            if !ok && ctx.violation_count() < before + 3 {
                check_list(ctx, "window", c, &[v]);
                if ctx.violation_count() == before {
                    // mismatch between the crate's decoder on the reference text
                    check_string(ctx, "window", c, &buf.clone());
                }
            }
        }
        let n = (end - start + 1) as u64;
        ctx.evals(n);
        ctx.op_n("generate_vlq_segment", n);
        ctx.op_n("parse_vlq_segment", n);
        // every |v| >= 16 needs two digits: non-trivial; all values distinct by construction
        let nontriv = (start..=end).filter(|v| v.abs() >= 16).count() as u64;
        ctx.nontrivial_enumerated(nontriv);
        if c == 0 || c == nchunks - 1 {
            ctx.sample(|| json!({"window_chunk": [start, end], "first_text": generate_vlq_segment(&[start]).ok()}));
        }
    }
    ctx.exhaustive(&format!("every integer in [{lo}, {hi}] as a singleton list: encode == reference text, decode(encode) == value"));

    // 2. powers of two and neighbours up to 2^62 - 1, alone and inside lists
    let mut specials: Vec<i64> = vec![0];
    for k in 0..=62u32 {
        let b: i128 = 1 << k;
        for v in [b - 1, b, b + 1] {
            if v < LIMIT {
                specials.push(v as i64);
                specials.push(-(v as i64));
            }
        }
    }
    specials.sort_unstable();
    specials.dedup();
    let ns = specials.len() as u64;
    for n in ctx.cases("pow2", ns * 4) {
        let mut rng = ctx.begin("pow2", n);
        let v = specials[(n % ns) as usize];
        let list: Vec<i64> = match n / ns {
            0 => vec![v],
            1 => vec![v, *rng.pick(&specials)],
            2 => vec![rand_val(&mut rng), v, 0],
            _ => (0..5).map(|i| if i == 2 { v } else { *rng.pick(&specials) }).collect(),
        };
        ctx.eval();
        ctx.bucket_if(v.abs() == 0 || v.abs() == 1, "sign-at-0/1");
        ctx.bucket_if(v.unsigned_abs().is_power_of_two() && v.unsigned_abs().trailing_zeros() % 5 == 4, "5-bit-boundary");
        ctx.bucket_if(v.unsigned_abs() >= 1 << 32, "33-bit-or-more");
        ctx.bucket_if(v.unsigned_abs() >= 1 << 59, "13-digit-value");
        ctx.nontrivial(crate::rng::fnv1a(format!("{list:?}").as_bytes()));
        ctx.sample(|| json!({"list": list, "text": rv::encode(&list.iter().map(|&v| i128::from(v)).collect::<Vec<_>>())}));
        check_list(ctx, "pow2", n, &list);
    }

    // 3. random lists (canonical texts)
    let total = ctx.size(1_000_000, 50_000_000);
    for n in ctx.cases("lists", total) {
        let mut rng = ctx.begin("lists", n);
        let len = rng.range_usize(1, 8);
        let list: Vec<i64> = (0..len).map(|_| rand_val(&mut rng)).collect();
        ctx.eval();
        ctx.nontrivial(crate::rng::fnv1a(format!("{list:?}").as_bytes()));
        check_list(ctx, "lists", n, &list);
    }

    // 3b. differences of two u32 (what the map encoder emits), random incl. extremes
    let total = ctx.size(500_000, 20_000_000);
    for n in ctx.cases("u32-diffs", total) {
        let mut rng = ctx.begin("u32-diffs", n);
        let a = crate::model::gen_num(&mut rng, 1000, true);
        let b = if rng.bool() { rng.next_u32() } else { crate::model::gen_num(&mut rng, 1000, true) };
        let d = i64::from(a) - i64::from(b);
        ctx.eval();
        ctx.nontrivial(crate::rng::fnv1a(&d.to_le_bytes()));
        check_list(ctx, "u32-diffs", n, &[d, -d]);
    }

    // 4. all base64 strings up to length 4 (quick: 3, plus the length-4 ones sampled)
    let maxlen = if ctx.quick() { 4 } else { 5 };
    for len in 0..=maxlen {
        let total = 64u64.pow(len as u32);
        let stream = format!("strings-len{len}");
        for n in ctx.cases(&stream, total) {
            ctx.begin(&stream, n);
            let s = nth_b64(n, len);
            ctx.eval();
            if len >= 2 {
                ctx.nontrivial_enumerated(1);
            }
            check_string(ctx, &stream, n, &s);
        }
    }
    ctx.exhaustive(&format!("every string over the base64 alphabet of length 0..={maxlen}: decoder vs. reference (values / unterminated / empty)"));

    // 5. random longer strings, biased towards continuation digits so long values occur
    let total = ctx.size(1_500_000, 100_000_000);
    for n in ctx.cases("strings-rand", total) {
        let mut rng = ctx.begin("strings-rand", n);
        let len = if ctx.quick() && rng.chance(1, 3) { 4 } else { rng.range_usize(5, 40) };
        let cont_bias = rng.below(4);
        let mut s = String::with_capacity(len);
        for _ in 0..len {
            let d = if rng.below(4) < cont_bias { 32 + rng.below(32) } else { rng.below(64) } as usize;
            s.push(rv::ALPHABET[d] as char);
        }
        ctx.eval();
        ctx.nontrivial_bytes(s.as_bytes());
        if n < 64 {
            ctx.sample(|| json!({"text": s, "reference": format!("{:?}", rv::decode(s.as_bytes()))}));
        }
        check_string(ctx, "strings-rand", n, &s);
    }

    // 5b. digit-count boundary: values of exactly 12, 13, 14, 15 digits at every position of a short list
    for n in ctx.cases("digit-boundary", 4 * 3 * 64) {
        let mut rng = ctx.begin("digit-boundary", n);
        let digits = 12 + (n % 4) as usize;
        let pos = ((n / 4) % 3) as usize;
        let mut s = String::new();
        for i in 0..3 {
            if i == pos {
                for k in 0..digits {
                    let last = k + 1 == digits;
                    // keep the value in the 62-bit domain when it has 13 digits
                    let d = if last { rng.below(if digits == 13 { 4 } else { 32 }) } else { 32 + rng.below(32) } as usize;
                    s.push(rv::ALPHABET[d] as char);
                }
            } else {
                s.push(rv::ALPHABET[rng.below(32) as usize] as char);
            }
        }
        ctx.eval();
        ctx.nontrivial_bytes(s.as_bytes());
        ctx.bucket(&format!("value-with-{digits}-digits"));
        check_string(ctx, "digit-boundary", n, &s);
    }

    // 6. the alphabet table: every byte value as only / first / last byte of a segment
    if ctx.shard == 0 || ctx.only.is_some() {
        let mut table = vec![];
        for n in ctx.cases_unsharded("table", 256) {
            ctx.begin("table", n);
            let b = n as u8;
            ctx.eval();
            match rv::digit_of(b) {
                Some(d) => {
                    let ch = (b as char).to_string();
                    if d < 32 {
                        check_string(ctx, "table", n, &ch);
                        check_string(ctx, "table", n, &format!("g{ch}")); // as last digit of a 2-digit value
                        check_string(ctx, "table", n, &format!("{ch}A")); // as a complete first value
                    } else {
                        check_string(ctx, "table", n, &format!("{ch}A")); // as first digit with continuation
                        check_string(ctx, "table", n, &format!("{ch}B"));
                        check_string(ctx, "table", n, &ch); // alone: unterminated
                    }
                    ctx.bucket("table:alphabet-byte");
                }
                None => {
                    // outside the alphabet: C06 owns the verdict; only "no panic" here, outcome recorded
                    let ch: String = if b < 0x80 { (b as char).to_string() } else { char::from_u32(0x80 + u32::from(b & 0x7f)).unwrap().to_string() };
                    for s in [ch.clone(), format!("A{ch}"), format!("{ch}A")] {
                        match catch(|| parse_vlq_segment(&s)) {
                            Err(p) => ctx.violation(&panic_sig(&p), "table", n, format!("parse_vlq_segment({s:?}) panicked: {p}"), json!({"text": s})),
                            Ok(r) => {
                                if s == ch {
                                    table.push(json!([b, r.is_ok()]));
                                }
                            }
                        }
                    }
                    ctx.bucket("table:foreign-byte(no-panic only)");
                }
            }
        }
        let accepted: Vec<_> = table.iter().filter(|e| e[1] == true).map(|e| e[0].clone()).collect();
        ctx.note("foreign_bytes_accepted_alone", json!(accepted));
    }
}
