//! C06 - malformed mappings are rejected, never silently mis-decoded (fault enumeration).
//!
//! Base documents are well-formed (C02 generator, regular kind, arrays of size 0..4). Single
//! faults are enumerated at every applicable site of the mappings string; a faulted document is
//! used only if the strict reference decoder rejects it. Oracle: the crate must return Err.

use serde_json::json;
use sourcemap::decode_slice;
use sourcemap::vlq::parse_vlq_segment;

use super::c02::{gen_regular_doc, Doc, DocCfg};
use crate::monitor::{catch, panic_sig, Ctx};
use crate::observe::unresolved_index;
use crate::reference::json::{jarr, jobj, jopt_str, jstr};
use crate::reference::mappings as refmap;
use crate::reference::vlq as rv;
use crate::rng::Rng;

/// All byte values that can occur in valid UTF-8 and are neither in the base64 alphabet nor
/// ',' / ';', each wrapped in the shortest scalar that contains it.
fn foreign_scalars() -> Vec<(u8, char)> {
    let mut v = vec![];
    for b in 0u8..=0x7f {
        if rv::digit_of(b).is_none() && b != b',' && b != b';' {
            v.push((b, b as char));
        }
    }
    for b in 0x80u8..=0xbf {
        v.push((b, char::from_u32(0xC0 + u32::from(b - 0x80)).unwrap())); // C3 xx
    }
    for b in 0xc2u8..=0xdf {
        v.push((b, char::from_u32(u32::from(b & 0x1f) << 6).unwrap())); // xx 80
    }
    for b in 0xe0u8..=0xef {
        let second = if b == 0xe0 { 0xa0u32 } else { 0x80 };
        v.push((b, char::from_u32((u32::from(b & 0x0f) << 12) | ((second & 0x3f) << 6)).unwrap()));
    }
    for b in 0xf0u8..=0xf4 {
        let second = if b == 0xf0 { 0x90u32 } else { 0x80 };
        v.push((b, char::from_u32((u32::from(b & 0x07) << 18) | ((second & 0x3f) << 12)).unwrap()));
    }
    for (b, c) in &v {
        let mut buf = [0u8; 4];
        assert!(c.encode_utf8(&mut buf).as_bytes().contains(b), "scalar for byte {b:#x} does not contain it");
    }
    // foreign *characters* whose code point, truncated to 8 or 16 bits, would look like a base64
    // digit (U+0141 -> 'A', U+1F641 -> 'A', U+042B -> '+', ...), plus a few other planes
    for &d in rv::ALPHABET.iter() {
        for hi in [0x100u32, 0x400, 0x1F600, 0x10000, 0xFF00] {
            if let Some(c) = char::from_u32(hi | u32::from(d)) {
                let mut buf = [0u8; 4];
                let first = c.encode_utf8(&mut buf).as_bytes()[0];
                v.push((first, c));
            }
        }
    }
    v
}

struct Base {
    doc: Doc,
    n_sources: usize,
    n_names: usize,
    /// lines -> segments -> values (deltas as written)
    lines: Vec<Vec<Vec<i128>>>,
}

fn encode_lines(lines: &[Vec<Vec<i128>>]) -> String {
    lines.iter().map(|l| l.iter().map(|s| rv::encode(s)).collect::<Vec<_>>().join(",")).collect::<Vec<_>>().join(";")
}

fn doc_text(doc: &Doc, mappings: &str) -> String {
    let mut pairs: Vec<(String, String)> = vec![("version".into(), "3".into()), ("mappings".into(), jstr(mappings))];
    if let Some(s) = &doc.sources {
        pairs.push(("sources".into(), jarr(s.iter().map(jopt_str))));
    }
    if let Some(n) = &doc.names {
        pairs.push((
            "names".into(),
            jarr(n.iter().map(|v| match v {
                super::c02::NameVal::Str(s) => jstr(s),
                super::c02::NameVal::Int(i) => i.to_string(),
            })),
        ));
    }
    jobj(&pairs)
}

#[derive(Clone, Copy, PartialEq, Eq, Debug)]
enum SitePos {
    Only,
    First,
    Middle,
    Last,
}

pub fn run(ctx: &mut Ctx) {
    let mut srng = Rng::new(ctx.seed ^ 0xC06);
    crate::reference::vlq::self_check(&mut srng, 5000);
    crate::reference::mappings::self_check(&mut srng, 500);
    let foreign = foreign_scalars();
    ctx.note("foreign_characters_in_pool(222 byte values + code points that truncate to a base64 digit)", json!(foreign.len()));
    ctx.note("byte_values_impossible_in_utf8_not_covered", json!(["0xC0", "0xC1", "0xF5..0xFF"]));

    let total = ctx.size(120_000, 1_000_000);
    for n in ctx.cases("bases", total) {
        let mut rng = ctx.begin("bases", n);
        let cfg = DocCfg { max_lines: *rng.pick(&[1, 3, 5]), max_segs: *rng.pick(&[1, 3, 6]), big: rng.chance(1, 4), allow_header: false, allow_index: false, ..DocCfg::default() };
        let mut doc = gen_regular_doc(&mut rng, &cfg);
        doc.mappings_absent = false;
        // no empty segments in bases: sites are counted in well-formed segments
        for l in doc.lines.iter_mut() {
            l.retain(Option::is_some);
        }
        let text = doc.mappings();
        let lines: Vec<Vec<Vec<i128>>> = text
            .split(';')
            .map(|l| l.split(',').filter(|s| !s.is_empty()).map(|s| rv::decode(s.as_bytes()).expect("base decodes")).collect())
            .collect();
        assert_eq!(encode_lines(&lines), text, "base re-encoding");
        let base = Base { n_sources: doc.n_sources(), n_names: doc.n_names(), doc, lines };
        assert!(refmap::decode(&text, base.n_sources, base.n_names).is_ok());
        // the base itself must decode, and all its indices resolve
        run_doc(ctx, n, &base, &text, None, "base");

        let nsegs: usize = base.lines.iter().map(Vec::len).sum();
        let mut seg_no = 0usize;
        let (mut sid, mut nid) = (0i128, 0i128);
        for (li, line) in base.lines.iter().enumerate() {
            for (si, seg) in line.iter().enumerate() {
                let pos = if nsegs == 1 { SitePos::Only } else if seg_no == 0 { SitePos::First } else if seg_no + 1 == nsegs { SitePos::Last } else { SitePos::Middle };
                seg_no += 1;
                let with_seg = |new_seg: Vec<i128>| -> String {
                    let mut l = base.lines.clone();
                    l[li][si] = new_seg;
                    encode_lines(&l)
                };
                let with_seg_text = |new_text: &str| -> String {
                    let texts: Vec<Vec<String>> = base.lines.iter().map(|l| l.iter().map(|s| rv::encode(s)).collect()).collect();
                    let mut t = texts;
                    t[li][si] = new_text.to_string();
                    t.iter().map(|l| l.join(",")).collect::<Vec<_>>().join(";")
                };
                // --- arity faults
                for arity in [2usize, 3, 6, 7] {
                    let mut s = seg.clone();
                    s.resize(arity, 0);
                    run_doc(ctx, n, &base, &with_seg(s), None, &format!("arity-{arity}@{pos:?}"));
                }
                // --- continuation bit set on the last digit of the segment
                {
                    let t = rv::encode(seg);
                    let last = *t.as_bytes().last().unwrap();
                    let d = rv::digit_of(last).unwrap() | 32;
                    let faulted = format!("{}{}", &t[..t.len() - 1], rv::ALPHABET[d as usize] as char);
                    run_doc(ctx, n, &base, &with_seg_text(&faulted), Some(&faulted), &format!("continuation-on-last-digit@{pos:?}"));
                }
                // --- one value replaced by an over-long one
                for (vi, _) in seg.iter().enumerate() {
                    for digits in [14usize, 15, 20] {
                        let mut t = String::new();
                        for (vj, v) in seg.iter().enumerate() {
                            if vj == vi {
                                for k in 0..digits {
                                    let d = if k + 1 == digits { rng.below(32) } else { 32 + rng.below(32) };
                                    t.push(rv::ALPHABET[d as usize] as char);
                                }
                            } else {
                                rv::encode_one(&mut t, *v);
                            }
                        }
                        run_doc(ctx, n, &base, &with_seg_text(&t), Some(&t), &format!("value-with-{digits}-digits@{pos:?}"));
                    }
                }
                // --- source / name index pushed out of range
                if seg.len() >= 4 {
                    let cur = sid + seg[1];
                    let len = base.n_sources as i128;
                    let first_use = sid == 0 && li == 0 && si == 0;
                    let after_decrease = seg[1] < 0;
                    for (label, target) in [("len", len), ("len+1", len + 1), ("2^32-1", (1 << 32) - 1), ("-1", -1), ("-len-1", -len - 1), ("2^32+k", (1i128 << 32) + cur)] {
                        let mut s = seg.clone();
                        s[1] = target - sid;
                        let when = if first_use { "first-use" } else if after_decrease { "after-decrease" } else { "later-use" };
                        run_doc(ctx, n, &base, &with_seg(s), None, &format!("source-index={label}:{when}@{pos:?}"));
                    }
                    sid = cur;
                    if seg.len() == 5 {
                        let curn = nid + seg[4];
                        let len = base.n_names as i128;
                        for (label, target) in [("len", len), ("len+1", len + 1), ("2^32-1", (1 << 32) - 1), ("-1", -1), ("-len-1", -len - 1), ("2^32+k", (1i128 << 32) + curn)] {
                            let mut s = seg.clone();
                            s[4] = target - nid;
                            run_doc(ctx, n, &base, &with_seg(s), None, &format!("name-index={label}@{pos:?}"));
                        }
                        nid = curn;
                    }
                }
            }
        }
        // --- arrays declared empty: any reference to them is out of range
        if base.n_sources == 0 {
            run_doc(ctx, n, &base, "AAAA", None, "reference-into-empty-sources");
        }
        if base.n_names == 0 && base.n_sources > 0 {
            run_doc(ctx, n, &base, "AAAAA", None, "reference-into-empty-names");
        }
        // --- a foreign byte at every offset of the mappings string
        let per_offset = if ctx.quick() { 3 } else { 12 };
        let tb = text.as_bytes();
        for off in 0..=tb.len() {
            let where_ = if text.is_empty() {
                "empty-mappings"
            } else {
                let before_sep = off == tb.len() || tb[off] == b',' || tb[off] == b';';
                let after_sep = off == 0 || tb[off - 1] == b',' || tb[off - 1] == b';';
                match (after_sep, before_sep) {
                    (true, true) => "alone-in-segment",
                    (true, false) => "segment-start",
                    (false, true) => "segment-end",
                    (false, false) => "segment-middle",
                }
            };
            for k in 0..per_offset {
                let (b, ch) = foreign[((n as usize).wrapping_mul(131) + off * per_offset + k * 37 + rng.usize_below(foreign.len())) % foreign.len()];
                let mut t = String::with_capacity(text.len() + 4);
                t.push_str(&text[..off]);
                t.push(ch);
                t.push_str(&text[off..]);
                let class = if b >= 0x80 { "byte>=0x80" } else { "ascii" };
                // the segment that contains the foreign char
                let seg_start = t[..off].rfind([',', ';']).map_or(0, |i| i + 1);
                let seg_end = t[off + ch.len_utf8()..].find([',', ';']).map_or(t.len(), |i| off + ch.len_utf8() + i);
                let seg_text = t[seg_start..seg_end].to_string();
                run_doc(ctx, n, &base, &t, Some(&seg_text), &format!("foreign-{class}@{where_}"));
            }
        }
        // --- combinations: 2..3 random faults at once
        for _ in 0..(if ctx.quick() { 6 } else { 30 }) {
            let mut l = base.lines.clone();
            let mut label = vec![];
            if nsegs == 0 {
                break;
            }
            for _ in 0..rng.range_usize(2, 3) {
                let li = rng.usize_below(l.len());
                if l[li].is_empty() {
                    continue;
                }
                let si = rng.usize_below(l[li].len());
                match rng.below(3) {
                    0 => {
                        let a = *rng.pick(&[2usize, 3, 6, 7]);
                        l[li][si].resize(a, 0);
                        label.push("arity");
                    }
                    1 if l[li][si].len() >= 4 => {
                        l[li][si][1] += *rng.pick(&[7i128, -9, 1 << 32, -(1 << 31)]);
                        label.push("source-index");
                    }
                    _ if l[li][si].len() == 5 => {
                        l[li][si][4] += *rng.pick(&[7i128, -9, 1 << 32]);
                        label.push("name-index");
                    }
                    _ => {}
                }
            }
            let mut t = encode_lines(&l);
            if rng.bool() && !t.is_empty() {
                let off = rng.usize_below(t.len() + 1);
                t.insert(off, foreign[rng.usize_below(foreign.len())].1);
                label.push("foreign");
            }
            if !label.is_empty() {
                run_doc(ctx, n, &base, &t, None, "combination");
            }
        }
        if n < 32 {
            ctx.sample(|| json!({"base_mappings": text, "n_sources": base.n_sources, "n_names": base.n_names}));
        }
    }
}

/// Runs one (possibly faulted) mappings string through the reference and the crate.
fn run_doc(ctx: &mut Ctx, n: u64, base: &Base, mappings: &str, vlq_segment: Option<&str>, fault: &str) {
    let reference = refmap::decode(mappings, base.n_sources, base.n_names);
    let is_base = fault == "base";
    if !is_base && reference.is_ok() {
        ctx.bucket("fault-landed-on-ignored-spot(discarded)");
        // still: whatever the crate makes of it, indices must resolve
    } else if !is_base {
        ctx.eval();
        ctx.bucket(&format!("fault:{fault}"));
        ctx.nontrivial_bytes(format!("{}|{}|{}", mappings, base.n_sources, base.n_names).as_bytes());
    } else {
        ctx.eval();
    }
    let text = doc_text(&base.doc, mappings);
    ctx.op("decode_slice");
    let data = || json!({"mappings": mappings, "n_sources": base.n_sources, "n_names": base.n_names, "fault": fault, "reference": format!("{:?}", reference.as_ref().map(|t| t.len()))});
    match catch(|| decode_slice(text.as_bytes())) {
        Err(p) => ctx.violation(&panic_sig(&p), "bases", n, format!("decode_slice panicked on mappings {mappings:?} ({fault}): {p}"), data()),
        Ok(Ok(m)) => {
            if let Some(bad) = unresolved_index(&m) {
                ctx.violation("decoded-token-with-unresolvable-index", "bases", n, format!("decode_slice accepted mappings {mappings:?} ({fault}) and holds a token whose index does not resolve: {bad}"), data());
            } else if let Err(e) = &reference {
                let class = fault.split('@').next().unwrap().split(':').next().unwrap();
                ctx.violation(
                    &format!("accepts-malformed:{}", class.split('=').next().unwrap()),
                    "bases",
                    n,
                    format!("decode_slice accepted mappings {mappings:?} ({fault}); the format says {e:?}"),
                    data(),
                );
            }
        }
        Ok(Err(_)) => {
            if is_base {
                ctx.violation("rejects-wellformed-base", "bases", n, format!("decode_slice rejected the well-formed base {mappings:?}"), data());
            }
        }
    }
    if let (Some(seg), Err(_)) = (vlq_segment, &reference) {
        // VLQ-level faults: the public segment parser must reject the faulted segment as well
        if rv::decode(seg.as_bytes()).is_err() {
            ctx.op("parse_vlq_segment");
            match catch(|| parse_vlq_segment(seg)) {
                Err(p) => ctx.violation(&panic_sig(&p), "bases", n, format!("parse_vlq_segment({seg:?}) panicked: {p}"), data()),
                Ok(Ok(v)) => {
                    let class = fault.split('@').next().unwrap();
                    ctx.violation(&format!("vlq-accepts-malformed:{class}"), "bases", n, format!("parse_vlq_segment({seg:?}) = Ok({v:?}) ({fault})"), data())
                }
                Ok(Err(_)) => {}
            }
        }
    }
}
