//! C14 - Hermes maps resolve tokens to the enclosing function their metadata describes.

use serde_json::json;
use sourcemap::{decode_slice, DecodedMap, RawToken, SourceMapHermes};

use crate::model::*;
use crate::monitor::{catch, hash_value, panic_sig, Ctx};
use crate::reference::vlq as rv;
use crate::rng::Rng;

type Fail = (String, String);

fn answers(h: &SourceMapHermes, dm: &DecodedMap, offsets: &[u32]) -> (Vec<Option<String>>, Vec<(Option<String>, Option<String>, Option<String>)>) {
    let per_token: Vec<Option<String>> = h.tokens().map(|t| h.get_scope_for_token(t).map(str::to_string)).collect();
    let per_offset = offsets
        .iter()
        .map(|&o| {
            (
                h.get_original_function_name(o).map(str::to_string),
                dm.get_original_function_name(0, o, None, None).map(str::to_string),
                dm.get_original_function_name(1, o, None, None).map(str::to_string),
            )
        })
        .collect();
    (per_token, per_offset)
}

fn check(ctx: &mut Ctx, hm: &HermesModel, text: &str, rng: &mut Rng) -> Result<(), Fail> {
    ctx.op("decode_slice");
    let dm = decode_slice(text.as_bytes()).map_err(|e| ("hermes-decode-error".to_string(), format!("decoding failed: {e}")))?;
    let h = match &dm {
        DecodedMap::Hermes(h) => h,
        _ => return Err(("hermes-kind".into(), "document with x_facebook_sources decoded as another kind".into())),
    };
    let toks: Vec<RawToken> = h.tokens().map(|t| t.get_raw_token()).collect();
    let mut offsets: Vec<u32> = vec![0, 1, u32::MAX];
    for t in toks.iter().filter(|t| t.dst_line == 0).take(30) {
        offsets.push(t.dst_col);
        offsets.push(t.dst_col.saturating_add(1));
        offsets.push(t.dst_col.saturating_sub(1));
    }
    for _ in 0..4 {
        offsets.push(rng.below(100) as u32);
    }
    ctx.op_n("get_scope_for_token", toks.len() as u64);
    ctx.op_n("get_original_function_name", offsets.len() as u64 * 3);
    let (per_token, per_offset) = answers(h, &dm, &offsets);
    for (i, t) in toks.iter().enumerate() {
        let want = if t.src_id == !0 { None } else { hm.expected_scope(t.src_id, t.src_line, t.src_col) };
        if per_token[i] != want {
            let kind = match hm.fb.get(t.src_id as usize) {
                None | Some(FbSource::Null) => "source-without-function-map",
                Some(FbSource::Metas(m)) if m.is_empty() => "empty-metadata",
                Some(FbSource::Metas(m)) if !m[0].usable() => "unparsable-function-map",
                _ => "wrong-enclosing-function",
            };
            return Err((
                format!("scope:{kind}"),
                format!("token #{i} (source {}, original {}:{}) resolves to {:?}; the function map says {:?}", t.src_id as i64, t.src_line, t.src_col, per_token[i], want),
            ));
        }
        match (&want, hm.fb.get(t.src_id as usize)) {
            (Some(_), _) => ctx.bucket("token-resolving-to-a-name"),
            (None, Some(FbSource::Metas(m))) if !m.is_empty() && m[0].usable() => {
                let before_all = m[0].entries.first().map_or(true, |e| (u64::from(t.src_line) + 1, t.src_col) < (u64::from(e.0), e.1));
                ctx.bucket(if before_all { "token-before-first-entry->None" } else { "name-index-out-of-range->None" });
            }
            (None, Some(FbSource::Metas(m))) if !m.is_empty() => ctx.bucket("token-in-source-with-unparsable-map->None"),
            (None, Some(FbSource::Metas(_))) => ctx.bucket("token-in-source-with-empty-metadata->None"),
            (None, _) => ctx.bucket("token-in-source-without-function-map->None"),
        }
        if let Some(FbSource::Metas(m)) = hm.fb.get(t.src_id as usize) {
            if let Some(f) = m.first() {
                ctx.bucket_if(f.entries.iter().any(|e| e.0 == t.src_line.wrapping_add(1) && e.1 == t.src_col), "entry-exactly-at-token-position");
            }
        }
    }
    for (k, &o) in offsets.iter().enumerate() {
        let want = super::c04::reference_lookup(&toks, 0, o).and_then(|i| {
            let t = &toks[i];
            if t.src_id == !0 {
                None
            } else {
                hm.expected_scope(t.src_id, t.src_line, t.src_col)
            }
        });
        let (a, b, c) = &per_offset[k];
        // several tokens may share the position the offset resolves to: accept the scope of any of them
        let pos = super::c04::reference_lookup(&toks, 0, o).map(|i| (toks[i].dst_line, toks[i].dst_col));
        let admissible: Vec<Option<String>> = toks
            .iter()
            .filter(|t| Some((t.dst_line, t.dst_col)) == pos)
            .map(|t| if t.src_id == !0 { None } else { hm.expected_scope(t.src_id, t.src_line, t.src_col) })
            .collect();
        let ok = |x: &Option<String>| if admissible.is_empty() { x.is_none() } else { admissible.contains(x) };
        if !ok(a) {
            return Err(("offset-lookup".into(), format!("get_original_function_name({o}) = {a:?}, reference {want:?}")));
        }
        if !ok(b) || a != b {
            return Err(("offset-lookup-via-DecodedMap".into(), format!("DecodedMap::get_original_function_name(0,{o},None,None) = {b:?}, SourceMapHermes gives {a:?}, reference {want:?}")));
        }
        if c.is_some() {
            return Err(("offset-lookup-line-nonzero".into(), format!("DecodedMap::get_original_function_name(1,{o},..) = {c:?}, expected nothing for a line other than 0")));
        }
    }
    // unchanged by write + read
    ctx.op("to_writer");
    let mut bytes = vec![];
    dm.to_writer(&mut bytes).map_err(|e| ("serialise-error".to_string(), e.to_string()))?;
    let dm2 = decode_slice(&bytes).map_err(|e| ("reload-error".to_string(), format!("{e}")))?;
    let h2 = match &dm2 {
        DecodedMap::Hermes(h) => h,
        _ => return Err(("reload-kind".into(), "reloaded Hermes map has another kind".into())),
    };
    let toks2: Vec<RawToken> = h2.tokens().map(|t| t.get_raw_token()).collect();
    let (pt2, po2) = answers(h2, &dm2, &offsets);
    let key = |t: &RawToken, s: &Option<String>| (t.dst_line, t.dst_col, t.src_id, if t.src_id != !0 { (t.src_line, t.src_col) } else { (0, 0) }, s.clone());
    let mut a: Vec<_> = toks.iter().zip(&per_token).map(|(t, s)| key(t, s)).collect();
    let mut b: Vec<_> = toks2.iter().zip(&pt2).map(|(t, s)| key(t, s)).collect();
    a.sort();
    a.dedup();
    b.sort();
    b.dedup();
    if a != b {
        return Err(("scopes-change-after-roundtrip".into(), "per-token scopes differ after to_writer + decode".into()));
    }
    if po2.iter().map(|x| &x.0).ne(per_offset.iter().map(|x| &x.0)) && !toks.windows(2).any(|w| (w[0].dst_line, w[0].dst_col) == (w[1].dst_line, w[1].dst_col)) {
        return Err(("offset-answers-change-after-roundtrip".into(), "bytecode-offset answers differ after to_writer + decode".into()));
    }
    ctx.bucket("round-trip-checked");
    Ok(())
}

fn model_buckets(ctx: &mut Ctx, hm: &HermesModel) {
    let mut good = 0;
    let mut broken = 0;
    for f in &hm.fb {
        match f {
            FbSource::Null => ctx.bucket("null-entry"),
            FbSource::Metas(m) if m.is_empty() => ctx.bucket("empty-metadata-array"),
            FbSource::Metas(m) => {
                ctx.bucket_if(m.len() > 1, "extra-metadata-after-the-first");
                if m[0].usable() {
                    good += 1;
                    for g in m[0].mappings_text().split(';') {
                        for seg in g.split(',').filter(|s| !s.is_empty()) {
                            if let Ok(v) = rv::decode(seg.as_bytes()) {
                                ctx.bucket(&format!("segment-with-{}-field(s)", v.len().min(4)));
                            }
                        }
                    }
                    ctx.bucket_if(m[0].entries.windows(2).any(|w| w[0].0 != w[1].0), "function-map-with-several-lines");
                    ctx.bucket_if(m[0].entries.iter().any(|e| e.0 >= 4096), "function-map-entry-beyond-line-4096");
                    ctx.bucket_if(m[0].entries.iter().any(|e| e.2 as usize >= m[0].names.len()), "name-index-out-of-range");
                } else {
                    broken += 1;
                }
            }
        }
    }
    ctx.bucket_if(good >= 1 && broken >= 1, "broken-function-map-next-to-a-good-one");
}

pub fn run(ctx: &mut Ctx) {
    let mut srng = Rng::new(ctx.seed ^ 0xC14);
    crate::reference::metro::self_check(&mut srng);
    crate::reference::vlq::self_check(&mut srng, 2000);

    let total = ctx.size(800_000, 6_000_000);
    for n in ctx.cases("maps", total) {
        let mut rng = ctx.begin("maps", n);
        ctx.eval();
        let cfg = GenCfg { max_lines: *rng.pick(&[1, 1, 3]), max_tokens: *rng.pick(&[5, 20, 50]), max_sources: 5, big_numbers: rng.chance(1, 6), exact_dup_pct: 0, dup_pos_pct: 5, ..GenCfg::default() };
        let mut hm = gen_hermes(&mut rng, &cfg);
        if hm.map.sources.is_empty() {
            continue;
        }
        // aim some tokens exactly at / next to function-map entries
        let fb = hm.fb.clone();
        for t in hm.map.tokens.iter_mut() {
            if let Some(s) = t.src.as_mut() {
                if let Some(FbSource::Metas(m)) = fb.get(s.id as usize) {
                    if let Some(f) = m.first() {
                        if !f.entries.is_empty() && rng.chance(1, 2) {
                            let e = *rng.pick(&f.entries);
                            s.line = e.0 - 1;
                            s.col = match rng.below(4) {
                                0 => e.1,
                                1 => e.1.saturating_sub(1),
                                2 => e.1 + 1,
                                _ => e.1 + rng.below(6) as u32,
                            };
                        }
                    }
                }
            }
        }
        let text = hm.to_json_text(Some(&mut rng));
        model_buckets(ctx, &hm);
        let n_entries: usize = hm.fb.iter().map(|f| if let FbSource::Metas(m) = f { m.first().map_or(0, |x| x.entries.len()) } else { 0 }).sum();
        if n_entries >= 2 && !hm.map.tokens.is_empty() {
            ctx.nontrivial(hash_value(&hm.json()));
        }
        ctx.sample(|| json!({"document": text}));
        match catch(|| check(ctx, &hm, &text, &mut rng)) {
            Err(p) => ctx.violation(&panic_sig(&p), "maps", n, format!("panicked: {p}"), json!({"document": text})),
            Ok(Err((sig, d))) => ctx.violation(&sig, "maps", n, d, json!({"document": text})),
            Ok(Ok(())) => {}
        }
    }
}
