//! C07 - range mappings survive serialisation and shift lookups inside the range.

use serde_json::{json, Value};
use sourcemap::{decode_slice, DecodedMap, RawToken, SourceMap};

use crate::model::*;
use crate::monitor::{catch, hash_value, panic_sig, Ctx};
use crate::reference::rmi;
use crate::rng::Rng;

type Fail = (String, String);

fn raw_tokens(sm: &SourceMap) -> Vec<RawToken> {
    sm.tokens().map(|t| t.get_raw_token()).collect()
}

/// Tokens the encoder writes: a token equal (all fields) to its predecessor is dropped.
fn written(toks: &[RawToken]) -> Vec<RawToken> {
    let mut out: Vec<RawToken> = vec![];
    for (i, t) in toks.iter().enumerate() {
        if i > 0 && toks[i - 1] == *t {
            continue;
        }
        out.push(*t);
    }
    out
}

/// Serialisation half: rangeMappings text and re-decoded flags.
fn check_serialisation(ctx: &mut Ctx, sm: &SourceMap) -> Result<(), Fail> {
    let toks = raw_tokens(sm);
    let w = written(&toks);
    let mut bytes = vec![];
    ctx.op("to_writer");
    sm.to_writer(&mut bytes).map_err(|e| ("serialise-error".to_string(), e.to_string()))?;
    let doc: Value = serde_json::from_slice(&bytes).map_err(|e| ("invalid-json".to_string(), e.to_string()))?;
    // What an independent reader sees: the segments of 'mappings' in text order, each flagged by the
    // bit of 'rangeMappings' with its line and segment index. Which exact duplicates the encoder
    // leaves out is its own business (the statement only asks that the same tokens are ranges), so
    // both sides are compared modulo consecutive exact duplicates and the bit positions are taken
    // from the text that was actually written.
    let text = String::from_utf8_lossy(&bytes[..bytes.len().min(1200)]).to_string();
    let got: Vec<Vec<usize>> = match doc.get("rangeMappings") {
        None => vec![],
        Some(Value::String(s)) => rmi::decode(s).map_err(|b| ("rangeMappings-foreign-byte".to_string(), format!("rangeMappings {s:?} contains byte {b:#x}")))?,
        Some(other) => return Err(("rangeMappings-type".into(), format!("rangeMappings is {other}"))),
    };
    let mappings = doc.get("mappings").and_then(Value::as_str).ok_or_else(|| ("mappings-missing".to_string(), text.clone()))?;
    let n_sources = doc.get("sources").and_then(Value::as_array).map_or(0, Vec::len);
    let n_names = doc.get("names").and_then(Value::as_array).map_or(0, Vec::len);
    let segs = crate::reference::mappings::decode(mappings, n_sources, n_names).map_err(|e| ("mappings-unreadable".to_string(), format!("{e:?}; output: {text}")))?;
    type Seen = (i128, i128, Option<(i128, i128, i128, Option<i128>)>, bool);
    let mut seen: Vec<Seen> = vec![];
    let mut used: Vec<Vec<usize>> = vec![vec![]; got.len()];
    for (t, seg_index) in &segs {
        let flagged = got.get(t.dl as usize).is_some_and(|f| f.contains(seg_index));
        if flagged {
            used[t.dl as usize].push(*seg_index);
        }
        seen.push((t.dl, t.dc, t.src.map(|s| (s.id, s.line, s.col, s.name)), flagged));
    }
    for (l, g) in got.iter().enumerate() {
        if g.len() != used[l].len() {
            return Err((
                "rangeMappings-bits".into(),
                format!("line {l}: rangeMappings marks mappings {g:?} as ranges, but only {:?} of them exist on that line; output: {text}", used[l]),
            ));
        }
    }
    let mut want: Vec<Seen> = w
        .iter()
        .map(|t| {
            let src = (t.src_id != !0).then(|| (i128::from(t.src_id), i128::from(t.src_line), i128::from(t.src_col), (t.name_id != !0).then(|| i128::from(t.name_id))));
            (i128::from(t.dst_line), i128::from(t.dst_col), src, t.is_range)
        })
        .collect();
    want.dedup();
    seen.dedup();
    if want != seen {
        let i = want.iter().zip(&seen).position(|(x, y)| x != y).unwrap_or(want.len().min(seen.len()));
        return Err((
            "rangeMappings-bits".into(),
            format!("mappings + rangeMappings as read by an independent reader differ from the map's tokens at #{i} (line, column, source, is_range): map {:?}, written {:?}; output: {text}", want.get(i), seen.get(i)),
        ));
    }
    // decode again: is_range per token
    ctx.op("decode_slice");
    let m2 = match decode_slice(&bytes).map_err(|e| ("reload-error".to_string(), format!("{e}; output: {text}")))? {
        DecodedMap::Regular(s) => s,
        _ => return Err(("reload-kind".into(), "reloaded as another kind".into())),
    };
    let back = raw_tokens(&m2);
    // original position only for tokens that have a source (it is a don't-care otherwise)
    let key = |t: &RawToken| if t.src_id != !0 { (t.dst_line, t.dst_col, t.src_line, t.src_col, t.is_range) } else { (t.dst_line, t.dst_col, 0, 0, t.is_range) };
    let mut a: Vec<(u32, u32, u32, u32, bool)> = w.iter().map(key).collect();
    let mut b: Vec<(u32, u32, u32, u32, bool)> = back.iter().map(key).collect();
    // sourceless duplicates that differ only in don't-care fields are written twice and come back
    // as exact duplicates: compare modulo consecutive duplicates, as C01 does
    a.dedup();
    b.dedup();
    if a != b {
        a.sort();
        b.sort();
        if a != b {
            let i = a.iter().zip(&b).position(|(x, y)| x != y).unwrap_or(a.len().min(b.len()));
            return Err((
                "range-flags-after-roundtrip".into(),
                format!("after write+read the (position, original position, is_range) lists differ; first difference (sorted) #{i}: written {:?}, reloaded {:?}; output: {text}", a.get(i), b.get(i)),
            ));
        }
    }
    Ok(())
}

/// Lookup half. `full`: sweep every column between tokens (small maps) or a sample.
fn check_lookups(ctx: &mut Ctx, sm: &SourceMap, rng: &mut Rng) -> Result<(), Fail> {
    let toks = raw_tokens(sm);
    let mut queries: Vec<(u32, u32)> = vec![(0, 0), (u32::MAX, u32::MAX), (u32::MAX, 0), (0, u32::MAX)];
    for (i, t) in toks.iter().enumerate() {
        let next_col = toks.get(i + 1).filter(|n| n.dst_line == t.dst_line).map(|n| n.dst_col);
        let end = next_col.unwrap_or(t.dst_col.saturating_add(4)).min(t.dst_col.saturating_add(5));
        for c in t.dst_col..=end {
            queries.push((t.dst_line, c));
        }
        queries.push((t.dst_line, t.dst_col.saturating_add(rng.below(1000) as u32)));
        for dl in [1u32, 2, 7] {
            if let Some(l) = t.dst_line.checked_add(dl) {
                queries.push((l, 0));
                if t.dst_col > 0 {
                    queries.push((l, t.dst_col - 1));
                    queries.push((l, rng.below(u64::from(t.dst_col)) as u32));
                }
                queries.push((l, t.dst_col));
                queries.push((l, t.dst_col.saturating_add(1 + rng.below(50) as u32)));
                queries.push((l, u32::MAX));
            }
        }
        if toks.len() > 60 && i > 60 {
            break;
        }
    }
    for (l, c) in queries {
        ctx.op("lookup_token");
        let got = sm.lookup_token(l, c);
        let want = super::c04::reference_lookup(&toks, l, c);
        let (g, w) = match (got, want) {
            (None, None) => continue,
            (Some(g), Some(w)) => (g, w),
            (g, w) => return Err(("lookup-presence".into(), format!("lookup({l},{c}) = {:?}, reference token index {w:?}", g.map(|t| t.get_raw_token())))),
        };
        let raw = g.get_raw_token();
        let pos = (toks[w].dst_line, toks[w].dst_col);
        if (raw.dst_line, raw.dst_col) != pos {
            return Err(("lookup-not-closest".into(), format!("lookup({l},{c}) returned a token at {:?}, closest is {:?}", (raw.dst_line, raw.dst_col), pos)));
        }
        // which token came back: identified by its raw fields among the tokens at that position
        if !toks.iter().any(|t| *t == raw) {
            return Err(("lookup-foreign-token".into(), format!("lookup({l},{c}) returned {raw:?} which is not in the map")));
        }
        let same_line = l == raw.dst_line;
        let dist = u64::from(c) - u64::from(raw.dst_col).min(u64::from(c));
        let want_col: u64 = if raw.is_range && same_line { u64::from(raw.src_col) + dist } else { u64::from(raw.src_col) };
        if raw.is_range {
            ctx.bucket(if same_line {
                if dist > 0 { "lookup:inside-range-same-line" } else { "lookup:range-token-exact" }
            } else if c < raw.dst_col {
                "lookup:range-token-from-later-line(col<dst_col)"
            } else {
                "lookup:range-token-from-later-line(col>=dst_col)"
            });
        } else {
            ctx.bucket("lookup:non-range-token");
        }
        if want_col > u64::from(u32::MAX) {
            ctx.bucket("lookup:offset-beyond-u32(no-panic-only)");
            continue;
        }
        if u64::from(g.get_src_col()) != want_col || g.get_src_line() != raw.src_line {
            let sig = if raw.is_range && !same_line { "range-offset-applied-across-lines" } else if raw.is_range { "range-offset-wrong" } else { "non-range-token-shifted" };
            return Err((
                sig.into(),
                format!(
                    "lookup({l},{c}) landed on {}token at ({},{}) -> original ({},{}); reported original ({},{}), expected ({},{})",
                    if raw.is_range { "range " } else { "" },
                    raw.dst_line, raw.dst_col, raw.src_line, raw.src_col, g.get_src_line(), g.get_src_col(), raw.src_line, want_col
                ),
            ));
        }
    }
    Ok(())
}

fn shape_model(lines: &[usize], flags: &dyn Fn(usize, usize) -> bool, rng: &mut Rng, gap_lines: bool) -> MapModel {
    let mut tokens = vec![];
    let mut tag = 0u32;
    for (li, &n) in lines.iter().enumerate() {
        let dl = if gap_lines { (li * 2) as u32 } else { li as u32 };
        let mut c = rng.below(3) as u32;
        for i in 0..n {
            tokens.push(MTok {
                dl,
                dc: c,
                src: Some(MSrc { id: 0, line: tag, col: rng.below(50) as u32, name: None }),
                range: flags(li, i),
            });
            tag += 1;
            c += 1 + rng.below(4) as u32;
        }
    }
    MapModel { sources: vec!["s.js".into()], tokens, ..Default::default() }
}

fn run_model(ctx: &mut Ctx, stream: &str, n: u64, m: &MapModel, rng: &mut Rng) {
    ctx.eval();
    let how = rng.below(3);
    let built = catch(|| match how {
        0 => Ok(m.build_raw(rng, true)),
        1 => Ok(m.build_builder(rng)),
        _ => match decode_slice(m.to_json_text(Some(rng)).as_bytes()) {
            Ok(DecodedMap::Regular(s)) => Ok(s),
            Ok(_) => Err("decoded as another kind".to_string()),
            Err(e) => Err(format!("reference-encoded document rejected: {e}")),
        },
    });
    let sm = match built {
        Err(p) => return ctx.violation(&panic_sig(&p), stream, n, format!("building the map panicked: {p}"), m.json()),
        Ok(Err(e)) => return ctx.violation("decode-of-reference-document", stream, n, e, m.json()),
        Ok(Ok(s)) => s,
    };
    ctx.bucket(["built:SourceMap::new", "built:builder", "built:decoded-reference-document"][how as usize]);
    // the model's flags must be what the real map reports (for the decoded variant this is the
    // "reference-encoded document decodes to F" clause)
    let mut want: Vec<(u32, u32, u32, bool)> = m.tokens.iter().map(|t| (t.dl, t.dc, t.src.map_or(0, |s| s.line), t.range)).collect();
    let mut got: Vec<(u32, u32, u32, bool)> = sm.tokens().map(|t| (t.get_dst_line(), t.get_dst_col(), if t.has_source() { t.get_src_line() } else { 0 }, t.is_range())).collect();
    want.sort();
    got.sort();
    if want != got {
        let i = want.iter().zip(&got).position(|(a, b)| a != b).unwrap_or(0);
        ctx.violation(
            if how == 2 { "decode-range-flags" } else { "constructor-range-flags" },
            stream,
            n,
            format!("map reports (line, col, tag, is_range) {:?}, model says {:?}", got.get(i), want.get(i)),
            json!({"model": m.json(), "document": if how == 2 { Some(m.to_json_text(None)) } else { None }}),
        );
        return;
    }
    // buckets over the model
    let sorted = m.sorted_tokens();
    let mut idx_in_line = 0usize;
    let mut any_before = false;
    for (i, t) in sorted.iter().enumerate() {
        if i == 0 || sorted[i - 1].dl != t.dl {
            idx_in_line = 0;
            any_before = false;
        }
        if t.range {
            ctx.bucket_if(idx_in_line == 0 && t.dl > 0, "range:first-on-line(line>0)");
            ctx.bucket_if(idx_in_line == 0 && t.dl == 0, "range:first-on-line(line=0)");
            ctx.bucket_if(idx_in_line >= 16 && !any_before, "range:index>=16-with-no-earlier-flag-on-line");
            ctx.bucket_if(i > 0 && sorted[i - 1] == *t, "range:exact-duplicate-of-predecessor");
            ctx.bucket_if(i > 0 && (sorted[i - 1].dl, sorted[i - 1].dc) == (t.dl, t.dc) && sorted[i - 1] != *t, "range:after-distinct-token-at-same-position");
            ctx.bucket_if(sorted.get(i + 1).map_or(true, |nx| nx.dl != t.dl), "range:last-on-line");
            any_before = true;
        }
        idx_in_line += 1;
    }
    if m.tokens.iter().any(|t| t.range) {
        ctx.nontrivial(hash_value(&m.json()));
    }
    ctx.sample(|| m.json());
    match catch(|| check_serialisation(ctx, &sm)) {
        Err(p) => ctx.violation(&panic_sig(&p), stream, n, format!("serialising a map with range tokens panicked: {p}"), m.json()),
        Ok(Err((sig, d))) => ctx.violation(&sig, stream, n, d, m.json()),
        Ok(Ok(())) => {}
    }
    match catch(|| check_lookups(ctx, &sm, rng)) {
        Err(p) => ctx.violation(&panic_sig(&p), stream, n, format!("lookup on a map with range tokens panicked: {p}"), m.json()),
        Ok(Err((sig, d))) => ctx.violation(&sig, stream, n, d, m.json()),
        Ok(Ok(())) => {}
    }
}

pub fn run(ctx: &mut Ctx) {
    rmi::self_check();
    let miri = ctx.mode == "miri";

    // ---- exhaustive: every flag subset of every shape with <= 3 lines, <= 6 tokens per line, <= 10 tokens
    let mut shapes: Vec<Vec<usize>> = vec![];
    for a in 0..=6usize {
        shapes.push(vec![a]);
        for b in 0..=6usize {
            if a + b <= 10 {
                shapes.push(vec![a, b]);
            }
            for c in 1..=6usize {
                if a + b + c <= (if ctx.quick() { 8 } else { 10 }) {
                    shapes.push(vec![a, b, c]);
                }
            }
        }
    }
    let mut cases: Vec<(usize, u32)> = vec![];
    for (si, s) in shapes.iter().enumerate() {
        let k: usize = s.iter().sum();
        for mask in 0..(1u32 << k) {
            cases.push((si, mask));
        }
    }
    if !miri {
        let total = cases.len() as u64;
        for n in ctx.cases("subsets-exhaustive", total) {
            let mut rng = ctx.begin("subsets-exhaustive", n);
            let (si, mask) = cases[n as usize];
            let shape = &shapes[si];
            let starts: Vec<usize> = shape.iter().scan(0, |acc, &x| { let s = *acc; *acc += x; Some(s) }).collect();
            let m = shape_model(shape, &|li, i| mask & (1 << (starts[li] + i)) != 0, &mut rng, n % 5 == 0);
            run_model(ctx, "subsets-exhaustive", n, &m, &mut rng);
        }
        ctx.exhaustive(&format!("every assignment of the range flag to the tokens of every shape with 1..3 lines, <=6 tokens per line and <={} tokens in total ({} shapes, {} maps)", if ctx.quick() { 8 } else { 10 }, shapes.len(), total));
    }

    // ---- explicit shapes
    let explicit_total = if miri { 40 } else { 4000 };
    for n in ctx.cases("explicit", explicit_total) {
        let mut rng = ctx.begin("explicit", n);
        let kind = n % 8;
        let m = match kind {
            0 => {
                // only the first token of a line > 0
                let lines = vec![rng.range_usize(0, 3), rng.range_usize(1, 5), rng.range_usize(0, 3)];
                let target = rng.range_usize(1, 2);
                let lines = if lines[target] == 0 { vec![1, 2, 2] } else { lines };
                { let gap = rng.bool(); shape_model(&lines, &|li, i| li == target && i == 0, &mut rng, gap) }
            }
            1 => {
                let lines = vec![rng.range_usize(1, 40), rng.range_usize(1, 40)];
                let l2 = lines.clone();
                shape_model(&lines, &move |li, i| i + 1 == l2[li], &mut rng, false)
            }
            2 => {
                // a single flag at a notable index
                let idx = *rng.pick(&[15usize, 16, 17, 31, 32, 33, 63, 64, 65, 100]);
                let line = rng.usize_below(2);
                let lines = vec![idx + 1 + rng.usize_below(3), idx + 1 + rng.usize_below(3)];
                shape_model(&lines, &move |li, i| li == line && i == idx, &mut rng, false)
            }
            3 => shape_model(&[rng.range_usize(1, 70), rng.range_usize(0, 70)], &|_, _| true, &mut rng, false),
            4 | 5 => {
                // range token preceded by k exact duplicates (kind 4) or k distinct tokens at the same position (kind 5)
                let k = rng.range_usize(1, 4);
                let pre = rng.range_usize(0, 3);
                let mut m = shape_model(&[pre + 1 + rng.usize_below(3), 2], &|_, _| false, &mut rng, false);
                let at = pre.min(m.tokens.len() - 1);
                let base = m.tokens[at];
                let mut ins = vec![];
                for j in 0..k {
                    let mut d = base;
                    if kind == 5 {
                        d.src = Some(MSrc { id: 0, line: 1000 + j as u32, col: 3, name: None });
                    }
                    ins.push(d);
                }
                let mut flagged = base;
                flagged.range = true;
                if kind == 5 {
                    flagged.src = Some(MSrc { id: 0, line: 2000, col: 9, name: None });
                }
                // order: [k copies..., flagged] at the same position; the original `base` stays first
                let mut toks = m.tokens[..=at].to_vec();
                toks.extend(ins);
                toks.push(flagged);
                toks.extend_from_slice(&m.tokens[at + 1..]);
                if kind == 4 {
                    // make the copies exact duplicates of the *flagged* token's predecessor chain:
                    // base, base, ..., base(range)  -> the range token differs only in the flag
                }
                m.tokens = toks;
                m
            }
            6 => {
                // sourceless and named range tokens, several sources
                let cfg = GenCfg { allow_range: true, max_lines: 4, max_tokens: 20, dup_pos_pct: 20, exact_dup_pct: 15, unique_strings: true, allow_optional: false, ..GenCfg::default() };
                gen_map(&mut rng, &cfg)
            }
            _ => {
                // src_col close to u32::MAX: offsets that do not fit (no-panic only) and that just fit
                let mut m = shape_model(&[3, 2], &|_, i| i == 1, &mut rng, false);
                for t in m.tokens.iter_mut() {
                    if let Some(s) = t.src.as_mut() {
                        s.col = u32::MAX - rng.below(4) as u32;
                    }
                }
                m
            }
        };
        run_model(ctx, "explicit", n, &m, &mut rng);
    }

    // ---- random
    let total = if miri { 160 } else { ctx.size(400_000, 6_000_000) };
    for n in ctx.cases("random", total) {
        let mut rng = ctx.begin("random", n);
        let cfg = GenCfg {
            allow_range: true,
            max_lines: *rng.pick(&[1, 3, 6]),
            max_tokens: if miri { 12 } else { *rng.pick(&[5, 25, 80]) },
            max_col: *rng.pick(&[10, 60, 400]),
            dup_pos_pct: *rng.pick(&[0, 10, 30]),
            exact_dup_pct: *rng.pick(&[0, 10, 30]),
            unique_strings: true,
            allow_optional: false,
            ..GenCfg::default()
        };
        let m = gen_map(&mut rng, &cfg);
        run_model(ctx, "random", n, &m, &mut rng);
    }
}
