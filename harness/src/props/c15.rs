//! C15 - SourceView lines and UTF-16 slices match the text exactly, in any access order.

use serde_json::{json, Value};
use sourcemap::SourceView;

use crate::monitor::{catch, panic_sig, Ctx};
use crate::rng::Rng;

type Fail = (String, String);

pub const ALPHABET: &[char] = &['a', 'é', '😀', ' ', '\n', '\r'];

/// Reference splitter: \r\n, \n and lone \r terminate a line; a trailing terminator yields a
/// final empty line; the empty text is one empty line.
pub fn ref_lines(text: &str) -> Vec<&str> {
    let b = text.as_bytes();
    let mut out = vec![];
    let mut start = 0;
    let mut i = 0;
    while i < b.len() {
        if b[i] == b'\n' {
            out.push(&text[start..i]);
            i += 1;
            start = i;
        } else if b[i] == b'\r' {
            out.push(&text[start..i]);
            i += if b.get(i + 1) == Some(&b'\n') { 2 } else { 1 };
            start = i;
        } else {
            i += 1;
        }
    }
    out.push(&text[start..]);
    out
}

/// Reference slice: (answer, alternative answer when `c` falls on the second unit of a pair).
pub fn ref_slice(line: &str, c: u32, n: u32) -> (Option<String>, Option<String>) {
    let units: u64 = line.chars().map(|ch| ch.len_utf16() as u64).sum();
    let (c, end) = (u64::from(c), u64::from(c) + u64::from(n));
    if units < end {
        return (None, None);
    }
    let mut strict = String::new(); // chars whose interval meets [c, end)
    let mut skipping = String::new(); // same, but a pair that straddles c is left out
    let mut pos = 0u64;
    let mut straddle = false;
    for ch in line.chars() {
        let w = ch.len_utf16() as u64;
        let (s, e) = (pos, pos + w);
        if s < end && e > c && c < end {
            strict.push(ch);
            if s >= c {
                skipping.push(ch);
            } else {
                straddle = true;
            }
        }
        if s < c && e > c {
            straddle = true;
        }
        pos = e;
    }
    if straddle {
        (Some(skipping), Some(strict))
    } else {
        (Some(strict), None)
    }
}

fn nth_text(mut k: u64, len: usize) -> String {
    let mut s = String::new();
    for _ in 0..len {
        s.push(ALPHABET[(k % 6) as usize]);
        k /= 6;
    }
    s
}

#[derive(Debug, Clone)]
enum Op {
    Line(u32),
    Count,
    Lines,
    Clone,
    /// get_line_slice on the same view, so that state left behind by line requests (and by
    /// earlier slices) is exercised
    Slice(u32, u32, u32),
}

fn orders(n_lines: usize, rng: &mut Rng) -> Vec<(&'static str, Vec<Op>)> {
    let n = n_lines as u32;
    let asc: Vec<Op> = (0..n + 2).map(Op::Line).collect();
    let desc: Vec<Op> = (0..n + 2).rev().map(Op::Line).collect();
    let mut v = vec![
        ("ascending", asc.clone()),
        ("descending(missing line before present ones)", desc),
        ("late-line-first", vec![Op::Line(n - 1), Op::Line(0), Op::Line(n), Op::Line(n - 1), Op::Line(n / 2)]),
        ("count-first", [vec![Op::Count], asc.clone(), vec![Op::Count]].concat_ops()),
        ("count-in-between", vec![Op::Line(0), Op::Count, Op::Line(n - 1), Op::Line(n), Op::Count, Op::Line(0)]),
        ("lines()-interleaved", vec![Op::Line(n / 2), Op::Lines, Op::Line(0), Op::Lines, Op::Count]),
        ("clone-midway", vec![Op::Line(n / 2), Op::Clone, Op::Line(n - 1), Op::Count, Op::Clone, Op::Lines, Op::Line(0)]),
        ("request-after-exhaustion", vec![Op::Line(n + 5), Op::Line(0), Op::Line(u32::MAX), Op::Line(n - 1), Op::Line(n)]),
        (
            "slices-interleaved",
            vec![Op::Slice(n - 1, 0, 1), Op::Line(0), Op::Slice(0, 1, 1), Op::Slice(0, 0, 2), Op::Count, Op::Slice(n / 2, 1, 2), Op::Slice(n / 2, 0, 1), Op::Clone, Op::Slice(0, 2, 1), Op::Slice(0, 1, 3), Op::Lines, Op::Slice(n, 0, 0)],
        ),
    ];
    let mut r = vec![];
    for _ in 0..rng.range_usize(3, 10) {
        r.push(match rng.below(10) {
            0 => Op::Count,
            1 => Op::Lines,
            2 => Op::Clone,
            3..=5 => Op::Slice(rng.below(u64::from(n) + 1) as u32, rng.below(5) as u32, rng.below(4) as u32),
            _ => Op::Line(rng.below(u64::from(n) + 2) as u32),
        });
    }
    v.push(("random", r));
    v
}

trait ConcatOps {
    fn concat_ops(self) -> Vec<Op>;
}
impl ConcatOps for [Vec<Op>; 3] {
    fn concat_ops(self) -> Vec<Op> {
        self.into_iter().flatten().collect()
    }
}

fn run_order(ctx: &mut Ctx, text: &str, want: &[&str], ops: &[Op]) -> Result<(), Fail> {
    let mut view = if ops.len() % 2 == 0 { SourceView::new(text.into()) } else { SourceView::from_string(text.to_string()) };
    if view.source() != text {
        return Err(("source-accessor".into(), "source() differs from the text the view was created from".into()));
    }
    for (k, op) in ops.iter().enumerate() {
        match op {
            Op::Line(i) => {
                ctx.op("get_line");
                let got = view.get_line(*i);
                let w = want.get(*i as usize).copied();
                if got != w {
                    let sig = match (got, w) {
                        (None, Some(_)) => "line-missing",
                        (Some(_), None) => "line-past-the-end",
                        _ => "line-content",
                    };
                    return Err((sig.into(), format!("step {k}: get_line({i}) = {got:?}, text splits into {want:?}")));
                }
            }
            Op::Count => {
                ctx.op("line_count");
                let got = view.line_count();
                if got != want.len() {
                    return Err(("line-count".into(), format!("step {k}: line_count() = {got}, text has {} lines {want:?}", want.len())));
                }
            }
            Op::Lines => {
                ctx.op("lines");
                let got: Vec<&str> = view.lines().collect();
                if got != want {
                    return Err(("lines-iterator".into(), format!("step {k}: lines() = {got:?}, expected {want:?}")));
                }
            }
            Op::Slice(l, c, sp) => {
                ctx.op("get_line_slice");
                let got = view.get_line_slice(*l, *c, *sp);
                let (w1, w2) = match want.get(*l as usize) {
                    None => (None, None),
                    Some(line) => ref_slice(line, *c, *sp),
                };
                if !(got == w1.as_deref() || (w2.is_some() && got == w2.as_deref())) {
                    return Err(("slice-content-in-history".into(), format!("step {k}: get_line_slice({l},{c},{sp}) = {got:?} on a view with history; UTF-16 reading gives {w1:?}{}", if w2.is_some() { format!(" or {w2:?}") } else { String::new() })));
                }
            }
            Op::Clone => {
                ctx.op("clone");
                let c = view.clone();
                if c.source() != text {
                    return Err(("clone-source".into(), "clone has a different source".into()));
                }
                view = c;
            }
        }
    }
    Ok(())
}

fn check_slices(ctx: &mut Ctx, text: &str, want: &[&str], triples: &[(u32, u32, u32)]) -> Result<(), Fail> {
    let view = SourceView::new(text.into());
    for &(l, c, n) in triples {
        ctx.op("get_line_slice");
        let got = view.get_line_slice(l, c, n);
        let (w1, w2) = match want.get(l as usize) {
            None => (None, None),
            Some(line) => ref_slice(line, c, n),
        };
        let ok = got == w1.as_deref() || (w2.is_some() && got == w2.as_deref());
        if !ok {
            let sig = match (&got, &w1) {
                (Some(_), None) => "slice-some-but-line-too-short",
                (None, Some(_)) => "slice-none-but-line-long-enough",
                _ => "slice-content",
            };
            return Err((sig.into(), format!("get_line_slice({l},{c},{n}) = {got:?} on line {:?}; UTF-16 reading gives {w1:?}{}", want.get(l as usize), if w2.is_some() { format!(" or {w2:?}") } else { String::new() })));
        }
        if w2.is_some() {
            ctx.bucket("slice:column-inside-surrogate-pair(both readings accepted)");
        }
        match (&got, want.get(l as usize)) {
            (None, None) => ctx.bucket("slice:missing-line->None"),
            (None, Some(_)) => ctx.bucket("slice:line-shorter-than-c+n->None"),
            (Some(s), _) => {
                ctx.bucket_if(s.chars().any(|ch| ch.len_utf16() == 2), "slice:astral-char-inside-slice");
                ctx.bucket_if(s.is_empty(), "slice:empty-span");
            }
        }
        ctx.bucket_if(c >= 1 << 31 || n >= 1 << 31, "slice:extreme-triple");
    }
    Ok(())
}

fn text_buckets(ctx: &mut Ctx, text: &str) {
    for (t, name) in [("\n", "LF"), ("\r\n", "CRLF"), ("\r", "CR")] {
        ctx.bucket_if(text.starts_with(t), &format!("terminator:{name}-at-start"));
        ctx.bucket_if(text.ends_with(t), &format!("terminator:{name}-at-end"));
        ctx.bucket_if(text.contains(&format!("{t}{t}")), &format!("terminator:{name}-doubled"));
    }
    ctx.bucket_if(text.is_empty(), "empty-text");
}

fn one_text(ctx: &mut Ctx, stream: &str, n: u64, text: &str, rng: &mut Rng, all_triples: bool) {
    ctx.eval();
    let want = ref_lines(text);
    text_buckets(ctx, text);
    if want.len() >= 2 || !text.is_ascii() {
        if stream.starts_with("exhaustive") {
            ctx.nontrivial_enumerated(1);
        } else {
            ctx.nontrivial_bytes(text.as_bytes());
        }
    }
    let data = |order: &str| -> Value { json!({"text": text, "order": order}) };
    for (name, ops) in orders(want.len(), rng) {
        ctx.bucket(&format!("order:{}", name.split('(').next().unwrap()));
        match catch(|| run_order(ctx, text, &want, &ops)) {
            Err(p) => ctx.violation(&panic_sig(&p), stream, n, format!("order {name} on {text:?} panicked: {p}"), json!({"text": text, "order": name, "ops": format!("{ops:?}")})),
            Ok(Err((sig, d))) => ctx.violation(&sig, stream, n, format!("order {name} on {text:?}: {d}"), json!({"text": text, "order": name, "ops": format!("{ops:?}")})),
            Ok(Ok(())) => {}
        }
    }
    // (line, column, span) triples
    let mut triples: Vec<(u32, u32, u32)> = vec![];
    for (l, line) in want.iter().enumerate() {
        let units: u32 = line.chars().map(|c| c.len_utf16() as u32).sum();
        if all_triples {
            for c in 0..=units + 2 {
                for s in 0..=units + 2 {
                    triples.push((l as u32, c, s));
                }
            }
        } else {
            for _ in 0..24 {
                triples.push((l as u32, rng.below(u64::from(units) + 3) as u32, rng.below(u64::from(units) + 3) as u32));
            }
        }
        for big in [1u32 << 31, u32::MAX] {
            triples.push((l as u32, big, 0));
            triples.push((l as u32, big, 1));
            triples.push((l as u32, 0, big));
            triples.push((l as u32, 1, big));
            triples.push((l as u32, big, big));
        }
    }
    triples.push((want.len() as u32, 0, 0));
    triples.push((want.len() as u32 + 1, 0, 1));
    triples.push((u32::MAX, 0, 0));
    match catch(|| check_slices(ctx, text, &want, &triples)) {
        Err(p) => ctx.violation(&panic_sig(&p), stream, n, format!("get_line_slice on {text:?} panicked: {p}"), data("slices")),
        Ok(Err((sig, d))) => ctx.violation(&sig, stream, n, format!("text {text:?}: {d}"), data("slices")),
        Ok(Ok(())) => {}
    }
}

pub fn run(ctx: &mut Ctx) {
    assert_eq!(ref_lines(""), vec![""]);
    assert_eq!(ref_lines("a\nb"), vec!["a", "b"]);
    assert_eq!(ref_lines("a\r\nb\rc\n"), vec!["a", "b", "c", ""]);
    assert_eq!(ref_lines("\r\r\n\n"), vec!["", "", "", ""]);
    assert_eq!(ref_slice("abc👌def", 3, 1).0.as_deref(), Some("👌"));
    assert_eq!(ref_slice("abc👌def", 0, 5).0.as_deref(), Some("abc👌"));
    assert_eq!(ref_slice("abc👌def", 3, 3).0.as_deref(), Some("👌d"));
    assert_eq!(ref_slice("blah", 0, 5).0, None);
    assert_eq!(ref_slice("blah", 4, 0).0.as_deref(), Some(""));

    let (maxlen, label) = match ctx.mode.as_str() {
        "miri" => (3usize, "miri"),
        "valgrind" => (4, "valgrind"),
        _ => (if ctx.quick() { 6 } else { 8 }, "main"),
    };
    let maxlen = if ctx.scale_pct < 100 && label == "main" { maxlen - 1 } else { maxlen };
    for len in 0..=maxlen {
        let stream = format!("exhaustive-len{len}");
        let total = 6u64.pow(len as u32);
        for n in ctx.cases(&stream, total) {
            let mut rng = ctx.begin(&stream, n);
            let text = nth_text(n, len);
            one_text(ctx, &stream, n, &text, &mut rng, len <= 6);
            if len == maxlen && n % 9973 == 0 {
                ctx.sample(|| json!({"text": text, "lines": ref_lines(&text)}));
            }
        }
    }
    ctx.exhaustive(&format!("every text over {{a, é, 😀, space, LF, CR}} of length 0..={maxlen}, each under 9 request orders on fresh views and (length <= 6) every (line, column, span) triple with column, span <= units+2 plus 2^31 / 2^32-1"));

    // random longer texts
    let total = if label == "main" { ctx.size(20_000, 1_000_000) } else { 20 };
    for n in ctx.cases("random-texts", total) {
        let mut rng = ctx.begin("random-texts", n);
        let len = rng.range_usize(7, if label == "main" { 400 } else { 40 });
        let mut text = String::new();
        let pool: &[&str] = &["a", "b", "é", "😀", " ", "\n", "\r", "\r\n", "function f(){}", "日本", "\t", "\u{2028}", "𝒳"];
        for _ in 0..len {
            text.push_str(*rng.pick(pool));
        }
        one_text(ctx, "random-texts", n, &text, &mut rng, false);
    }
}
