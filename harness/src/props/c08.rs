//! C08 - index maps: section lookup and flattening describe the same mapping.

use std::collections::{BTreeMap, BTreeSet};

use serde_json::json;
use sourcemap::{decode_slice, DecodedMap, SourceMap, SourceMapIndex};

use crate::model::*;
use crate::monitor::{catch, hash_value, panic_sig, Ctx};
use crate::rng::Rng;

type Fail = (String, String);

#[derive(Debug, Clone, PartialEq, Eq, PartialOrd, Ord)]
struct FT {
    dl: u32,
    dc: u32,
    src: Option<String>,
    sl: u32,
    sc: u32,
    name: Option<String>,
    range: bool,
    contents: Option<String>,
    ignored: bool,
}

/// What "flattening" a token list in the given order makes of contents (first seen, per source
/// name) and ignore membership (any referencing token ignored).
fn settle(toks: Vec<FT>) -> Vec<FT> {
    let mut contents: BTreeMap<String, Option<String>> = BTreeMap::new();
    let mut ignored: BTreeSet<String> = BTreeSet::new();
    for t in &toks {
        if let Some(s) = &t.src {
            let e = contents.entry(s.clone()).or_insert(None);
            if e.is_none() {
                *e = t.contents.clone();
            }
            if t.ignored {
                ignored.insert(s.clone());
            }
        }
    }
    toks.into_iter()
        .map(|mut t| {
            if let Some(s) = &t.src {
                t.contents = contents[s].clone();
                t.ignored = ignored.contains(s);
            }
            t
        })
        .collect()
}

fn ft_of_map(m: &MapModel) -> Vec<FT> {
    m.sorted_tokens()
        .iter()
        .map(|t| FT {
            dl: t.dl,
            dc: t.dc,
            src: t.src.map(|s| m.joined_source(s.id as usize)),
            sl: t.src.map_or(0, |s| s.line),
            sc: t.src.map_or(0, |s| s.col),
            name: t.src.and_then(|s| s.name).map(|n| m.names[n as usize].clone()),
            range: t.range,
            contents: t.src.and_then(|s| m.contents.get(s.id as usize).cloned().flatten()),
            ignored: t.src.is_some_and(|s| m.ignore.contains(&s.id)),
        })
        .collect()
}

/// Reference flatten. Err(()) = some section (at any depth) is unresolved.
fn ref_flatten(i: &IndexModel) -> Result<Vec<FT>, ()> {
    let mut out = vec![];
    for sec in &i.sections {
        let toks = match &sec.map {
            None => return Err(()),
            Some(SecMap::Regular(m)) => ft_of_map(m),
            Some(SecMap::Hermes(h)) => ft_of_map(&h.map),
            Some(SecMap::Index(inner)) => ref_flatten(inner)?,
        };
        for mut t in toks {
            if t.dl == 0 {
                t.dc += sec.offset.1;
            }
            t.dl += sec.offset.0;
            out.push(t);
        }
    }
    Ok(settle(out))
}

/// Reference lookup on the index: (source, src_line, src_col incl. range offset, name).
fn ref_index_lookup(i: &IndexModel, l: u32, c: u32) -> Option<(Option<String>, u32, u32, Option<String>)> {
    let sec = i.sections.iter().filter(|s| s.offset <= (l, c)).max_by_key(|s| s.offset)?;
    let (rl, rc) = (l - sec.offset.0, if l == sec.offset.0 { c - sec.offset.1 } else { c });
    let m = match sec.map.as_ref()? {
        SecMap::Regular(m) => m,
        SecMap::Hermes(h) => &h.map,
        SecMap::Index(inner) => return ref_index_lookup(inner, rl, rc),
    };
    let toks = m.sorted_tokens();
    let t = toks.iter().filter(|t| (t.dl, t.dc) <= (rl, rc)).max_by_key(|t| (t.dl, t.dc))?;
    let off = if t.range && t.dl == rl { rc - t.dc } else { 0 };
    Some((
        t.src.map(|s| m.joined_source(s.id as usize)),
        t.src.map_or(0, |s| s.line),
        t.src.map_or(0, |s| s.col) + off,
        t.src.and_then(|s| s.name).map(|n| m.names[n as usize].clone()),
    ))
}

const SRC: &[&str] = &["a.js", "b.js", "/abs/c.js", "src/d.js", "http://h/e.js"];

/// A section map with unique generated positions; returns the model and its largest position.
fn gen_section_map(rng: &mut Rng) -> (MapModel, Option<(u32, u32)>) {
    let n_sources = rng.range_usize(1, 3);
    let sources: Vec<String> = (0..n_sources).map(|_| rng.pick(SRC).to_string()).collect();
    let names: Vec<String> = (0..rng.range_usize(0, 3)).map(|_| rng.pick(NAME_POOL).to_string()).collect();
    let mut tokens = vec![];
    let (mut l, mut c) = (0u32, rng.below(3) as u32);
    for k in 0..rng.range_usize(0, 7) {
        let src = if rng.chance(1, 8) {
            None
        } else {
            Some(MSrc {
                id: rng.below(n_sources as u64) as u32,
                line: k as u32 + 10 * rng.below(5) as u32,
                col: rng.below(40) as u32,
                name: if !names.is_empty() && rng.bool() { Some(rng.below(names.len() as u64) as u32) } else { None },
            })
        };
        tokens.push(MTok { dl: l, dc: c, src, range: rng.chance(1, 6) });
        if rng.chance(1, 3) {
            l += rng.range(1, 2) as u32;
            c = rng.below(4) as u32;
        } else {
            c += rng.range(1, 5) as u32;
        }
    }
    let max = tokens.iter().map(|t| (t.dl, t.dc)).max();
    let mut m = MapModel { sources, names, tokens, ..Default::default() };
    if rng.chance(1, 3) {
        m.root = Some(rng.pick(&["r", "r/", "/root"]).to_string());
    }
    if rng.chance(2, 3) {
        m.contents = (0..n_sources).map(|i| if rng.chance(2, 3) { Some(format!("contents-{}-{}", i, rng.below(1000))) } else { None }).collect();
    }
    for i in 0..n_sources {
        if rng.chance(1, 5) {
            m.ignore.insert(i as u32);
        }
    }
    if rng.bool() {
        m.file = Some("sec.js".into());
    }
    (m, max)
}

/// Index satisfying the statement's precondition; returns its extent (largest flattened position).
fn gen_index_pre(rng: &mut Rng, depth: u32, unresolved_pct: u64) -> (IndexModel, Option<(u32, u32)>) {
    let n = rng.range_usize(1, 5);
    let mut sections = vec![];
    let mut next_min: (u32, u32) = (rng.below(3) as u32, rng.below(5) as u32); // first offset may be > (0,0)
    if rng.chance(1, 3) {
        next_min = (0, 0);
    }
    let mut extent: Option<(u32, u32)> = None;
    for _ in 0..n {
        let off = next_min;
        let (map, max_rel) = if rng.chance(unresolved_pct, 100) {
            (None, None)
        } else if depth > 0 && rng.chance(1, 5) {
            let (inner, ext) = gen_index_pre(rng, depth - 1, 0);
            (Some(SecMap::Index(inner)), ext)
        } else if rng.chance(1, 6) {
            let (m, ext) = gen_section_map(rng);
            let fb = (0..m.sources.len()).map(|_| if rng.bool() { FbSource::Metas(vec![gen_fnmap(rng, 20, 40)]) } else { FbSource::Null }).collect();
            (Some(SecMap::Hermes(HermesModel { map: m, fb })), ext)
        } else {
            let (m, ext) = gen_section_map(rng);
            (Some(SecMap::Regular(m)), ext)
        };
        let url = if map.is_none() { Some("http://h/unresolved.map".to_string()) } else { None };
        sections.push(SectionModel { offset: off, url, map });
        let max_flat = max_rel.map(|(rl, rc)| (off.0 + rl, if rl == 0 { off.1 + rc } else { rc })).unwrap_or(off);
        let max_flat = std::cmp::max(max_flat, off);
        extent = Some(extent.map_or(max_flat, |e| std::cmp::max(e, max_flat)));
        // next offset strictly after everything so far
        next_min = if rng.chance(1, 3) { (max_flat.0, max_flat.1 + 1 + rng.below(4) as u32) } else { (max_flat.0 + 1 + rng.below(3) as u32, rng.below(6) as u32) };
    }
    (IndexModel { file: if rng.bool() { Some("bundle.js".into()) } else { None }, sections }, extent)
}

fn has_unresolved(i: &IndexModel) -> bool {
    i.sections.iter().any(|s| match &s.map {
        None => true,
        Some(SecMap::Index(inner)) => has_unresolved(inner),
        _ => false,
    })
}

fn check_flatten(ctx: &mut Ctx, model: &IndexModel, idx: &SourceMapIndex) -> Result<Option<SourceMap>, Fail> {
    ctx.op("flatten");
    let want = ref_flatten(model);
    let flat = match (idx.flatten(), &want) {
        (Ok(f), Ok(_)) => f,
        (Err(_), Err(())) => {
            ctx.bucket("flatten:unresolved-section->Err");
            return Ok(None);
        }
        (Ok(_), Err(())) => return Err(("flatten-ok-with-unresolved-section".into(), "flatten() succeeded although a section has no embedded map".into())),
        (Err(e), Ok(_)) => return Err(("flatten-error".into(), format!("flatten() failed on a fully resolved index: {e}"))),
    };
    let want = want.unwrap();
    let mut w: Vec<_> = want.iter().map(|t| (t.dl, t.dc, t.src.clone(), if t.src.is_some() { (t.sl, t.sc) } else { (0, 0) }, t.name.clone(), t.range)).collect();
    let mut g: Vec<_> = flat
        .tokens()
        .map(|t| {
            let r = t.get_raw_token();
            (r.dst_line, r.dst_col, t.get_source().map(str::to_string), if t.has_source() { (r.src_line, r.src_col) } else { (0, 0) }, t.get_name().map(str::to_string), r.is_range)
        })
        .collect();
    w.sort();
    g.sort();
    if w != g {
        let i = w.iter().zip(&g).position(|(a, b)| a != b).unwrap_or(w.len().min(g.len()));
        let sig = match (w.get(i), g.get(i)) {
            (Some(a), Some(b)) if (a.0, a.1) != (b.0, b.1) => "flatten-token-position",
            (Some(a), Some(b)) if a.5 != b.5 => "flatten-range-flag",
            (Some(a), Some(b)) if a.2 != b.2 => "flatten-source-name",
            (Some(a), Some(b)) if a.4 != b.4 => "flatten-name",
            (Some(_), Some(_)) => "flatten-original-position",
            _ => "flatten-token-count",
        };
        return Err((sig.into(), format!("flattened tokens differ from the reference; first difference (sorted) #{i}: crate {:?}, reference {:?} ({} vs {} tokens)", g.get(i), w.get(i), g.len(), w.len())));
    }
    // sources: exactly the referenced names, no duplicates
    let want_names: BTreeSet<String> = want.iter().filter_map(|t| t.src.clone()).collect();
    let got_names: Vec<String> = flat.sources().map(str::to_string).collect();
    let got_set: BTreeSet<String> = got_names.iter().cloned().collect();
    if got_set != want_names || got_set.len() != got_names.len() {
        return Err(("flatten-sources".into(), format!("flattened sources {got_names:?}, referenced source names {want_names:?}")));
    }
    // contents and ignore membership per source name
    let want_contents: BTreeMap<String, Option<String>> = want.iter().filter_map(|t| t.src.clone().map(|s| (s, t.contents.clone()))).collect();
    let want_ignored: BTreeSet<String> = want.iter().filter(|t| t.ignored).filter_map(|t| t.src.clone()).collect();
    for (i, name) in got_names.iter().enumerate() {
        let c = flat.get_source_contents(i as u32).map(str::to_string);
        if c != want_contents[name] {
            return Err(("flatten-contents".into(), format!("contents of {name:?} in the flattened map: {c:?}, first-seen contents: {:?}", want_contents[name])));
        }
    }
    let got_ignored: BTreeSet<String> = flat.ignore_list().filter_map(|&i| flat.get_source(i).map(str::to_string)).collect();
    if got_ignored != want_ignored {
        return Err(("flatten-ignore-list".into(), format!("ignored sources in the flattened map {got_ignored:?}, expected {want_ignored:?}")));
    }
    ctx.bucket_if(!want_ignored.is_empty(), "flatten:ignored-source-carried");
    ctx.bucket_if(want.iter().any(|t| t.range), "flatten:range-token-carried");
    Ok(Some(flat))
}

fn queries(model: &IndexModel, rng: &mut Rng) -> Vec<(u32, u32, &'static str)> {
    let mut q = vec![(0, 0, "origin")];
    let first = model.sections.first().map(|s| s.offset).unwrap_or((0, 0));
    if first > (0, 0) {
        q.push((first.0, first.1.saturating_sub(1), "before-first-section"));
        if first.0 > 0 {
            q.push((first.0 - 1, 50, "before-first-section"));
        }
    }
    for s in &model.sections {
        let (l, c) = s.offset;
        q.push((l, c, "at-section-boundary"));
        q.push((l, c + 1, "right-of-column-offset"));
        q.push((l, c + 3, "right-of-column-offset"));
        if c > 0 {
            q.push((l, c - 1, "left-of-column-offset-on-shared-line"));
            q.push((l, 0, "left-of-column-offset-on-shared-line"));
        }
        for dl in 1..4 {
            for cc in [0u32, 1, 2, 5, 9, 30] {
                q.push((l + dl, cc, "later-line"));
            }
        }
        for cc in 0..12 {
            q.push((l, c + cc, "first-line-sweep"));
        }
    }
    let last = model.sections.last().map(|s| s.offset).unwrap_or((0, 0));
    q.push((last.0 + 20, 0, "past-the-end"));
    q.push((last.0 + 20, 99, "past-the-end"));
    for _ in 0..10 {
        q.push((rng.below(u64::from(last.0) + 4) as u32, rng.below(25) as u32, "random"));
    }
    q
}

fn check_lookups(ctx: &mut Ctx, model: &IndexModel, idx: &SourceMapIndex, flat: Option<&SourceMap>, rng: &mut Rng) -> Result<(), Fail> {
    // the same object answers the catalogue in order and then again in shuffled order: an answer
    // must not depend on which lookups came before it
    let mut qs = queries(model, rng);
    let mut again = qs.clone();
    rng.shuffle(&mut again);
    qs.extend(again);
    for (l, c, what) in qs {
        ctx.op("SourceMapIndex::lookup_token");
        let want = ref_index_lookup(model, l, c);
        let got = idx.lookup_token(l, c).map(|t| (t.get_source().map(str::to_string), t.get_src_line(), t.get_src_col(), t.get_name().map(str::to_string)));
        // original position of a sourceless token is a don't-care
        let norm = |x: Option<(Option<String>, u32, u32, Option<String>)>| x.map(|t| if t.0.is_none() { (None, 0, 0, None) } else { t });
        if norm(got.clone()) != norm(want.clone()) {
            return Err(("index-lookup".into(), format!("index.lookup_token({l},{c}) [{what}] = {got:?}; the section with the greatest offset not after the position gives {want:?}")));
        }
        ctx.bucket(&format!("query:{what}"));
        if let (Some(g), Some(f)) = (&got, flat) {
            ctx.op("SourceMap::lookup_token(flattened)");
            let fl = f.lookup_token(l, c).map(|t| (t.get_source().map(str::to_string), t.get_src_line(), t.get_src_col(), t.get_name().map(str::to_string)));
            if norm(fl.clone()) != norm(Some(g.clone())) {
                return Err(("index-vs-flattened-lookup".into(), format!("at ({l},{c}) [{what}] the index resolves to {g:?} but the flattened map to {fl:?}")));
            }
            ctx.bucket("index-and-flattened-agree");
        }
    }
    Ok(())
}

fn model_buckets(ctx: &mut Ctx, i: &IndexModel, depth: u32) {
    ctx.bucket_if(depth > 0, "nested-index");
    for (k, s) in i.sections.iter().enumerate() {
        ctx.bucket_if(s.offset.1 > 0, "section-starting-mid-line");
        ctx.bucket_if(k > 0 && i.sections[k - 1].offset.0 == s.offset.0, "two-sections-on-one-line");
        match &s.map {
            None => ctx.bucket("unresolved-section"),
            Some(SecMap::Hermes(_)) => ctx.bucket("hermes-section"),
            Some(SecMap::Index(inner)) => model_buckets(ctx, inner, depth + 1),
            Some(SecMap::Regular(m)) => {
                ctx.bucket_if(m.tokens.is_empty(), "empty-section");
                ctx.bucket_if(s.offset.1 > 0 && m.tokens.iter().any(|t| t.dl == 0) && m.tokens.iter().any(|t| t.dl > 0), "mid-line-section-with-tokens-on-first-and-later-lines");
            }
        }
    }
}

pub fn run(ctx: &mut Ctx) {
    let total = ctx.size(120_000, 3_000_000);
    for n in ctx.cases("indexes", total) {
        let mut rng = ctx.begin("indexes", n);
        ctx.eval();
        let unresolved_pct = if rng.chance(1, 8) { 25 } else { 0 };
        let (model, _) = gen_index_pre(&mut rng, 2, unresolved_pct);
        let via_json = rng.bool();
        let built = catch(|| {
            if via_json {
                match decode_slice(model.to_json_text(&mut rng).as_bytes()) {
                    Ok(DecodedMap::Index(i)) => Ok(i),
                    Ok(_) => Err("document with sections decoded as another kind".to_string()),
                    Err(e) => Err(e.to_string()),
                }
            } else {
                Ok(model.build(&mut rng))
            }
        });
        let idx = match built {
            Err(p) => {
                ctx.violation(&panic_sig(&p), "indexes", n, format!("building the index panicked: {p}"), model.json());
                continue;
            }
            Ok(Err(e)) => {
                ctx.violation("index-decode-error", "indexes", n, format!("reference-encoded index rejected: {e}"), model.json());
                continue;
            }
            Ok(Ok(i)) => i,
        };
        ctx.bucket(if via_json { "built:decoded(sections shuffled)" } else { "built:SourceMapIndex::new" });
        model_buckets(ctx, &model, 0);
        if model.sections.len() >= 2 {
            ctx.nontrivial(hash_value(&model.json()));
        }
        ctx.sample(|| model.json());
        let flat = match catch(|| check_flatten(ctx, &model, &idx)) {
            Err(p) => {
                ctx.violation(&panic_sig(&p), "indexes", n, format!("flatten panicked: {p}"), model.json());
                continue;
            }
            Ok(Err((sig, d))) => {
                ctx.violation(&sig, "indexes", n, d, model.json());
                continue;
            }
            Ok(Ok(f)) => f,
        };
        let _ = has_unresolved;
        match catch(|| check_lookups(ctx, &model, &idx, flat.as_ref(), &mut rng)) {
            Err(p) => ctx.violation(&panic_sig(&p), "indexes", n, format!("lookup panicked: {p}"), model.json()),
            Ok(Err((sig, d))) => ctx.violation(&sig, "indexes", n, d, model.json()),
            Ok(Ok(())) => {}
        }
    }
    let _ = json!(0);
}
