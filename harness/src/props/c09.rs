//! C09 - rewriting a map never changes what any position resolves to.

use std::collections::{BTreeMap, BTreeSet};

use serde_json::json;
use sourcemap::{decode_slice, DecodedMap, RewriteOptions, SourceMap, SourceMapHermes};

use crate::model::*;
use crate::monitor::{catch, hash_value, panic_sig, Ctx};
use crate::rng::Rng;

type Fail = (String, String);

const PREFIX_SETS: &[&[&str]] = &[
    &[], &[], &["/abs"], &["/abs/"], &["/abs/y", "/abs"], &["/abs", "/abs/y"], &["/nomatch"], &["src"], &["src/"], &["http://h"],
    &["x"], &["r"], &["~"], &["~", "/abs"], &["/a"], &["/abs/x.js"],
    // a later prefix matches what is left after an earlier one was stripped (only the first may apply)
    &["/abs", "y"], &["/abs/", "y/"], &["src", "a.js"], &["http://h", "x.js"], &["/abs", "/abs"], &["r", "src"],
];

/// first matching prefix (normalised to end in '/') is removed
fn strip(name: &str, prefixes: &[&str]) -> String {
    for p in prefixes {
        let mut p = p.to_string();
        if !p.ends_with('/') {
            p.push('/');
        }
        if let Some(rest) = name.strip_prefix(&p) {
            return rest.to_string();
        }
    }
    name.to_string()
}

#[derive(Debug, Clone, PartialEq, Eq, PartialOrd, Ord)]
struct T {
    dl: u32,
    dc: u32,
    src: Option<String>,
    sl: u32,
    sc: u32,
    name: Option<String>,
    range: bool,
    scope: Option<String>,
}

fn toks(sm: &SourceMap, h: Option<&SourceMapHermes>) -> Vec<(T, u32, u32)> {
    sm.tokens()
        .map(|t| {
            let r = t.get_raw_token();
            (
                T {
                    dl: r.dst_line,
                    dc: r.dst_col,
                    src: t.get_source().map(str::to_string),
                    sl: if t.has_source() { r.src_line } else { 0 },
                    sc: if t.has_source() { r.src_col } else { 0 },
                    name: t.get_name().map(str::to_string),
                    range: r.is_range,
                    scope: h.and_then(|h| h.get_scope_for_token(t)).map(str::to_string),
                },
                r.src_id,
                r.name_id,
            )
        })
        .collect()
}

struct Before {
    toks: Vec<(T, u32, u32)>,
    contents: Vec<Option<String>>,
    file: Option<String>,
    debug_id: Option<String>,
}

fn snapshot(sm: &SourceMap, h: Option<&SourceMapHermes>) -> Before {
    Before {
        toks: toks(sm, h),
        contents: sm.source_contents().map(|c| c.map(str::to_string)).collect(),
        file: sm.get_file().map(str::to_string),
        debug_id: sm.get_debug_id().map(|d| d.to_string()),
    }
}

fn check_after(ctx: &mut Ctx, before: &Before, after: &SourceMap, ah: Option<&SourceMapHermes>, names_kept: bool, contents_kept: bool, prefixes: &[&str]) -> Result<(), Fail> {
    let tilde = prefixes.contains(&"~");
    let new = toks(after, ah);
    if new.len() != before.toks.len() {
        return Err(("rewrite-token-count".into(), format!("{} tokens before, {} after", before.toks.len(), new.len())));
    }
    let expect = |t: &T| -> T {
        let mut e = t.clone();
        e.src = t.src.as_ref().map(|s| strip(s, prefixes));
        if !names_kept {
            e.name = None;
        }
        e
    };
    let mut w: Vec<T> = before.toks.iter().map(|t| expect(&t.0)).collect();
    let mut g: Vec<T> = new.iter().map(|t| t.0.clone()).collect();
    if tilde {
        // what '~' strips is not pinned down by the statement: compare everything but the source name
        // here, and the source name by the suffix rule below
        for t in w.iter_mut().chain(g.iter_mut()) {
            t.src = t.src.as_ref().map(|_| String::new());
        }
    }
    w.sort();
    g.sort();
    if w != g {
        let i = w.iter().zip(&g).position(|(a, b)| a != b).unwrap_or(0);
        let (a, b) = (&w[i], &g[i]);
        let sig = if (a.dl, a.dc) != (b.dl, b.dc) {
            "rewrite-generated-position"
        } else if a.src != b.src {
            "rewrite-source-name"
        } else if (a.sl, a.sc) != (b.sl, b.sc) {
            "rewrite-original-position"
        } else if a.name != b.name {
            "rewrite-name"
        } else if a.range != b.range {
            "rewrite-range-flag"
        } else {
            "rewrite-hermes-scope"
        };
        return Err((sig.into(), format!("after rewrite the token list differs; first difference (sorted) #{i}: expected {a:?}, got {b:?}")));
    }
    // new id -> the old (full) names of the tokens that refer to it. Tokens are matched through
    // their position + original position + name (unique tags make this unambiguous)
    let mut old_by_key: BTreeMap<(u32, u32, u32, u32, Option<String>, bool), BTreeSet<(Option<String>, u32)>> = BTreeMap::new();
    for (t, sid, _) in &before.toks {
        old_by_key.entry((t.dl, t.dc, t.sl, t.sc, if names_kept { t.name.clone() } else { None }, t.range)).or_default().insert((t.src.clone(), *sid));
    }
    let mut new_src_old_names: BTreeMap<u32, BTreeSet<String>> = BTreeMap::new();
    let mut new_src_old_ids: BTreeMap<u32, BTreeSet<u32>> = BTreeMap::new();
    let mut used_src: BTreeSet<u32> = BTreeSet::new();
    let mut used_names: BTreeSet<u32> = BTreeSet::new();
    for (t, sid, nid) in &new {
        if t.src.is_some() {
            used_src.insert(*sid);
            let olds = &old_by_key[&(t.dl, t.dc, t.sl, t.sc, t.name.clone(), t.range)];
            if olds.len() == 1 {
                let (oname, oid) = olds.iter().next().unwrap();
                if let Some(on) = oname {
                    new_src_old_names.entry(*sid).or_default().insert(on.clone());
                    new_src_old_ids.entry(*sid).or_default().insert(*oid);
                    let nn = t.src.as_ref().unwrap();
                    let ok = if tilde {
                        on.ends_with(nn.as_str()) && (on.len() == nn.len() || on[..on.len() - nn.len()].ends_with('/'))
                    } else {
                        *nn == strip(on, prefixes)
                    };
                    if !ok {
                        return Err(("rewrite-source-name".into(), format!("source {on:?} became {nn:?} under strip_prefixes {prefixes:?}")));
                    }
                }
            }
        }
        if t.name.is_some() {
            used_names.insert(*nid);
        }
    }
    let n_src = after.get_source_count();
    let n_names = after.get_name_count();
    if (0..n_src).any(|i| !used_src.contains(&i)) {
        return Err(("rewrite-unreferenced-source".into(), format!("sources after rewrite {:?} contain an entry no token refers to", after.sources().collect::<Vec<_>>())));
    }
    if (0..n_names).any(|i| !used_names.contains(&i)) {
        return Err(("rewrite-unreferenced-name".into(), format!("names after rewrite {:?} contain an entry no token refers to", after.names().collect::<Vec<_>>())));
    }
    let names: Vec<&str> = after.names().collect();
    if names.iter().collect::<BTreeSet<_>>().len() != names.len() {
        return Err(("rewrite-duplicate-name".into(), format!("names after rewrite contain duplicates: {names:?}")));
    }
    // duplicate sources only if their pre-strip names differ
    let mut seen_old: BTreeMap<String, u32> = BTreeMap::new();
    for (nid, olds) in &new_src_old_names {
        for o in olds {
            if let Some(prev) = seen_old.insert(o.clone(), *nid) {
                if prev != *nid {
                    return Err(("rewrite-duplicate-source".into(), format!("old source name {o:?} appears as two entries ({prev} and {nid}) after rewrite")));
                }
            }
        }
    }
    let srcs: Vec<&str> = after.sources().collect();
    for i in 0..srcs.len() {
        for j in i + 1..srcs.len() {
            if srcs[i] == srcs[j] {
                let a = new_src_old_names.get(&(i as u32));
                let b = new_src_old_names.get(&(j as u32));
                if a.is_some() && a == b {
                    return Err(("rewrite-duplicate-source".into(), format!("sources after rewrite contain {:?} twice without prefix stripping being the cause", srcs[i])));
                }
                ctx.bucket("two-sources-made-equal-by-stripping");
            }
        }
    }
    // contents
    for i in 0..n_src {
        let c = after.get_source_contents(i).map(str::to_string);
        if !contents_kept {
            if c.is_some() {
                return Err(("rewrite-contents-not-dropped".into(), format!("contents of source {i} survive with_source_contents=false")));
            }
            continue;
        }
        if let Some(old_ids) = new_src_old_ids.get(&i) {
            let cands: Vec<Option<String>> = old_ids.iter().map(|&o| before.contents.get(o as usize).cloned().flatten()).collect();
            let any_some = cands.iter().any(Option::is_some);
            if (any_some && (c.is_none() || !cands.contains(&c))) || (!any_some && c.is_some()) {
                return Err(("rewrite-contents".into(), format!("contents of {:?} after rewrite: {c:?}; the referenced old sources of that name had {cands:?}", srcs[i as usize])));
            }
            ctx.bucket_if(any_some, "contents-carried");
        }
    }
    if after.get_file().map(str::to_string) != before.file {
        return Err(("rewrite-file".into(), format!("file {:?} -> {:?}", before.file, after.get_file())));
    }
    if after.get_debug_id().map(|d| d.to_string()) != before.debug_id {
        return Err(("rewrite-debug-id".into(), format!("debug id {:?} -> {:?}", before.debug_id, after.get_debug_id())));
    }
    Ok(())
}

/// Model with unique (src_line) tags so that tokens can be matched across the rewrite.
fn gen_tagged(rng: &mut Rng, distinct_sources: bool) -> MapModel {
    let cfg = GenCfg {
        max_lines: 4,
        max_tokens: *rng.pick(&[3, 12, 40]),
        max_sources: 6,
        max_names: 5,
        allow_range: true,
        dup_pos_pct: 10,
        exact_dup_pct: 0,
        unique_strings: distinct_sources,
        ..GenCfg::default()
    };
    let mut m = gen_map(rng, &cfg);
    for (i, t) in m.tokens.iter_mut().enumerate() {
        if let Some(s) = t.src.as_mut() {
            s.line = i as u32; // unique tag
        }
    }
    // sourceless tokens must be distinguishable too: give them unique generated columns
    for (i, t) in m.tokens.iter_mut().enumerate() {
        if t.src.is_none() {
            t.dc = 1000 + i as u32;
        }
    }
    m
}

pub fn run(ctx: &mut Ctx) {
    let mut srng = Rng::new(ctx.seed ^ 0xC09);
    crate::reference::metro::self_check(&mut srng);
    assert_eq!(strip("/abs/y/z.js", &["/abs/y", "/abs"]), "z.js");
    assert_eq!(strip("/abs/y/z.js", &["/abs", "/abs/y"]), "y/z.js");
    assert_eq!(strip("/absolute/z.js", &["/abs"]), "/absolute/z.js");

    let total = ctx.size(1_500_000, 8_000_000);
    for n in ctx.cases("maps", total) {
        let mut rng = ctx.begin("maps", n);
        ctx.eval();
        let hermes = rng.chance(1, 4);
        let mut m = gen_tagged(&mut rng, hermes);
        if hermes {
            // the statement is about maps with one function map per *source name*: two raw names that
            // the source root joins to the same name are merged by rewrite by design
            let joined: BTreeSet<String> = (0..m.sources.len()).map(|i| m.joined_source(i)).collect();
            if joined.len() != m.sources.len() {
                m.root = None;
            }
        }
        let prefixes: &[&str] = *rng.pick(PREFIX_SETS);
        let opts = RewriteOptions { with_names: rng.chance(2, 3), with_source_contents: rng.chance(2, 3), strip_prefixes: prefixes, ..Default::default() };
        let desc = format!("with_names={} with_source_contents={} strip_prefixes={:?}", opts.with_names, opts.with_source_contents, prefixes);
        let used: Vec<u32> = m.sorted_tokens().iter().filter_map(|t| t.src.map(|s| s.id)).collect();
        let mut first_use = used.clone();
        first_use.dedup();
        let mut seen = BTreeSet::new();
        first_use.retain(|x| seen.insert(*x));
        ctx.bucket_if(first_use.windows(2).any(|w| w[0] > w[1]), "source-order-differs-from-first-use");
        ctx.bucket_if((0..m.sources.len() as u32).any(|i| !seen.contains(&i) && m.contents.get(i as usize).is_some_and(Option::is_some)), "unreferenced-source-with-contents");
        ctx.bucket_if(m.root.as_ref().is_some_and(|r| !r.is_empty()), "map-with-root");
        ctx.bucket(&format!("options:names={},contents={}", opts.with_names, opts.with_source_contents));
        ctx.bucket(&format!("prefixes:{}", if prefixes.is_empty() { "none" } else if prefixes.contains(&"~") { "tilde" } else if prefixes.len() > 1 { "several" } else if prefixes[0].ends_with('/') { "one-with-slash" } else { "one" }));
        if seen.len() >= 2 {
            ctx.nontrivial(crate::rng::mix(hash_value(&m.json()), crate::rng::fnv1a(desc.as_bytes())));
        }
        ctx.sample(|| json!({"model": m.json(), "options": desc}));
        let data = || json!({"model": m.json(), "options": desc, "hermes": hermes});
        if hermes {
            let fb: Vec<FbSource> = (0..m.sources.len()).map(|_| if rng.chance(1, 8) { FbSource::Null } else { FbSource::Metas(vec![gen_fnmap(&mut rng, 40, 80)]) }).collect();
            let hm = HermesModel { map: m.clone(), fb };
            let text = hm.to_json_text(Some(&mut rng));
            let r = catch(|| -> Result<(), Fail> {
                let real = match decode_slice(text.as_bytes()) {
                    Ok(DecodedMap::Hermes(h)) => h,
                    Ok(_) => return Err(("hermes-kind".into(), "hermes document decoded as another kind".into())),
                    Err(e) => return Err(("hermes-decode".into(), e.to_string())),
                };
                let before = snapshot(&real, Some(&real));
                ctx.op("SourceMapHermes::rewrite");
                let after = real.rewrite(&opts).map_err(|e| ("rewrite-error".to_string(), e.to_string()))?;
                ctx.bucket_if(before.toks.iter().any(|t| t.0.scope.is_some()), "hermes-with-resolving-scopes");
                ctx.bucket_if(after.get_source_count() < hm.map.sources.len() as u32, "hermes-with-shifted-ids");
                check_after(ctx, &before, &after, Some(&after), opts.with_names, opts.with_source_contents, prefixes)
            });
            match r {
                Err(p) => ctx.violation(&panic_sig(&p), "maps", n, format!("Hermes rewrite ({desc}) panicked: {p}"), json!({"document": text, "options": desc})),
                Ok(Err((sig, d))) => ctx.violation(&sig, "maps", n, format!("Hermes rewrite ({desc}): {d}"), json!({"document": text, "options": desc})),
                Ok(Ok(())) => {}
            }
            continue;
        }
        let r = catch(|| -> Result<(), Fail> {
            let real = if rng.bool() { m.build_raw(&mut rng, true) } else { decode_regular(&m, &mut rng)? };
            let before = snapshot(&real, None);
            ctx.op("SourceMap::rewrite");
            let after = real.rewrite(&opts).map_err(|e| ("rewrite-error".to_string(), e.to_string()))?;
            check_after(ctx, &before, &after, None, opts.with_names, opts.with_source_contents, prefixes)
        });
        match r {
            Err(p) => ctx.violation(&panic_sig(&p), "maps", n, format!("rewrite ({desc}) panicked: {p}"), data()),
            Ok(Err((sig, d))) => ctx.violation(&sig, "maps", n, format!("rewrite ({desc}): {d}"), data()),
            Ok(Ok(())) => {}
        }
    }
}

fn decode_regular(m: &MapModel, rng: &mut Rng) -> Result<SourceMap, Fail> {
    match decode_slice(m.to_json_text(Some(rng)).as_bytes()) {
        Ok(DecodedMap::Regular(s)) => Ok(s),
        Ok(_) => Err(("kind".into(), "regular document decoded as another kind".into())),
        Err(e) => Err(("decode".into(), e.to_string())),
    }
}
