//! C02 - decoding follows the Source Map v3 wire format.
//!
//! A `Doc` is an abstract mapping model *plus presentation* (segment order inside a line,
//! empty lines/segments, arity, key order, optional keys, null sources, integer names, both
//! debug-id spellings, junk header). It is written by the reference encoder and read by the
//! crate; the model itself is the expected result.

use serde_json::{json, Value};
use sourcemap::{decode, decode_slice, DecodedMap, SourceMap};

use crate::model::*;
use crate::monitor::{catch, hash_value, panic_sig, Ctx};
use crate::observe::{observe, Obs, ObsMap, ObsTok};
use crate::reference::json::{jarr, jobj, jopt_str, jstr};
use crate::reference::mappings::{self as refmap, LinePres, RefSrc, RefTok};
use crate::rng::Rng;

#[derive(Debug, Clone, PartialEq)]
pub enum NameVal {
    Str(String),
    Int(i128),
}

#[derive(Debug, Clone, Copy, PartialEq, Eq)]
pub enum Kind {
    Regular,
    Hermes,
    Index,
}

#[derive(Debug, Clone)]
pub struct Doc {
    pub kind: Kind,
    pub sources: Option<Vec<Option<String>>>,
    pub names: Option<Vec<NameVal>>,
    pub root: Option<String>,
    pub file: Option<String>,
    pub contents: Option<Vec<Option<String>>>,
    pub debug_id: Option<String>,
    pub debug_id_new: Option<String>,
    pub ignore: Option<Vec<u32>>,
    pub lines: Vec<Vec<Option<RefTok>>>,
    pub mappings_absent: bool,
    pub fb: Option<Vec<FbSource>>,
    pub sections: Vec<(u32, u32, Option<String>, Option<Doc>)>,
    pub header: Option<String>,
    pub unknown_key: bool,
}

impl Doc {
    pub fn n_sources(&self) -> usize {
        self.sources.as_ref().map_or(0, Vec::len)
    }
    pub fn n_names(&self) -> usize {
        self.names.as_ref().map_or(0, Vec::len)
    }

    pub fn mappings(&self) -> String {
        let lines: Vec<LinePres> = self.lines.iter().map(|l| LinePres { items: l.clone() }).collect();
        refmap::encode(&lines)
    }

    pub fn body_pairs(&self, rng: &mut Rng) -> Vec<(String, String)> {
        let mut pairs: Vec<(String, String)> = vec![("version".into(), "3".into())];
        if self.kind == Kind::Index {
            let mut secs: Vec<String> = self
                .sections
                .iter()
                .map(|(l, c, url, map)| {
                    let mut p = vec![("offset".to_string(), jobj(&[("line".into(), l.to_string()), ("column".into(), c.to_string())]))];
                    if let Some(u) = url {
                        p.push(("url".into(), jstr(u)));
                    }
                    if let Some(m) = map {
                        let mut inner = m.body_pairs(rng);
                        rng.shuffle(&mut inner);
                        p.push(("map".into(), jobj(&inner)));
                    }
                    rng.shuffle(&mut p);
                    jobj(&p)
                })
                .collect();
            rng.shuffle(&mut secs); // the decoder has to sort sections by offset
            pairs.push(("sections".into(), jarr(secs)));
            if let Some(f) = &self.file {
                pairs.push(("file".into(), jstr(f)));
            }
            return pairs;
        }
        if let Some(s) = &self.sources {
            pairs.push(("sources".into(), jarr(s.iter().map(jopt_str))));
        }
        if let Some(n) = &self.names {
            pairs.push((
                "names".into(),
                jarr(n.iter().map(|v| match v {
                    NameVal::Str(s) => jstr(s),
                    NameVal::Int(i) => i.to_string(),
                })),
            ));
        }
        if !self.mappings_absent {
            pairs.push(("mappings".into(), jstr(&self.mappings())));
        }
        if let Some(f) = &self.file {
            pairs.push(("file".into(), jstr(f)));
        }
        if let Some(r) = &self.root {
            pairs.push(("sourceRoot".into(), jstr(r)));
        }
        if let Some(c) = &self.contents {
            pairs.push(("sourcesContent".into(), jarr(c.iter().map(jopt_str))));
        }
        if let Some(d) = &self.debug_id {
            pairs.push(("debug_id".into(), jstr(d)));
        }
        if let Some(d) = &self.debug_id_new {
            pairs.push(("debugId".into(), jstr(d)));
        }
        if let Some(i) = &self.ignore {
            pairs.push(("ignoreList".into(), jarr(i.iter().map(|x| x.to_string()))));
        }
        if let Some(fb) = &self.fb {
            let h = HermesModel { map: MapModel::default(), fb: fb.clone() };
            pairs.push(("x_facebook_sources".into(), h.fb_json_text()));
        }
        if self.unknown_key {
            pairs.push(("x_unknown_extension".into(), "[1,{\"a\":null}]".into()));
        }
        pairs
    }

    /// Document text, keys in random order, with the junk header (if any) in front.
    pub fn text(&self, rng: &mut Rng) -> String {
        let mut pairs = self.body_pairs(rng);
        rng.shuffle(&mut pairs);
        let body = if rng.chance(1, 4) {
            // some insignificant whitespace
            let v: Vec<String> = pairs.iter().map(|(k, v)| format!("\n  {} : {}", jstr(k), v)).collect();
            format!("{{{}\n}}\n", v.join(","))
        } else {
            jobj(&pairs)
        };
        match &self.header {
            Some(h) => format!("{h}{body}"),
            None => body,
        }
    }

    /// What the statement says the decoded map is.
    pub fn expected(&self) -> Obs {
        if self.kind == Kind::Index {
            let mut secs: Vec<_> = self.sections.clone();
            secs.sort_by_key(|s| (s.0, s.1));
            return Obs::Index {
                file: self.file.clone(),
                sections: secs
                    .into_iter()
                    .map(|(l, c, url, map)| crate::observe::ObsSection { offset: (l, c), url, map: map.map(|m| Box::new(m.expected())) })
                    .collect(),
                fb_offsets: None,
                module_paths: None,
            };
        }
        let root = self.root.clone();
        let raw_sources: Vec<String> = self.sources.clone().unwrap_or_default().into_iter().map(|s| s.unwrap_or_default()).collect();
        let sources: Vec<String> = raw_sources.iter().map(|s| join_root(root.as_deref(), s)).collect();
        let names: Vec<String> = self
            .names
            .clone()
            .unwrap_or_default()
            .into_iter()
            .map(|n| match n {
                NameVal::Str(s) => s,
                NameVal::Int(i) => i.to_string(),
            })
            .collect();
        let mut tokens: Vec<ObsTok> = vec![];
        if !self.mappings_absent {
            for line in &self.lines {
                for t in line.iter().flatten() {
                    tokens.push(ObsTok {
                        dl: t.dl as u32,
                        dc: t.dc as u32,
                        has_source: t.src.is_some(),
                        source: t.src.map(|s| sources[s.id as usize].clone()),
                        sl: t.src.map_or(0, |s| s.line as u32),
                        sc: t.src.map_or(0, |s| s.col as u32),
                        name: t.src.and_then(|s| s.name).map(|n| names[n as usize].clone()),
                        range: false,
                        src_id: t.src.map_or(!0, |s| s.id as u32),
                        name_id: t.src.and_then(|s| s.name).map_or(!0, |n| n as u32),
                    });
                }
            }
        }
        tokens.sort_by_key(|t| (t.dl, t.dc));
        let contents: Vec<Option<String>> = match &self.contents {
            Some(c) => (0..sources.len()).map(|i| c.get(i).cloned().flatten()).collect(),
            None => vec![None; sources.len()],
        };
        let mut ignore: Vec<u32> = self.ignore.clone().unwrap_or_default();
        ignore.sort_unstable();
        ignore.dedup();
        Obs::Map(ObsMap {
            hermes: self.kind == Kind::Hermes,
            file: self.file.clone(),
            root,
            debug_id: self.debug_id.clone().or(self.debug_id_new.clone()),
            token_count: tokens.len() as u32,
            source_count: sources.len() as u32,
            name_count: names.len() as u32,
            sources,
            names,
            contents,
            ignore,
            tokens,
            scopes: vec![],
        })
    }

    pub fn json(&self) -> Value {
        json!({
            "kind": format!("{:?}", self.kind), "sources": self.sources, "root": self.root, "file": self.file,
            "names": self.names.as_ref().map(|n| n.iter().map(|v| match v { NameVal::Str(s) => json!(s), NameVal::Int(i) => json!(i.to_string()) }).collect::<Vec<_>>()),
            "debug_id": self.debug_id, "debugId": self.debug_id_new, "ignore": self.ignore, "header": self.header,
            "mappings": if self.mappings_absent { Value::Null } else { json!(self.mappings()) },
            "sections": self.sections.iter().map(|(l, c, u, m)| json!({"offset": [l, c], "url": u, "map": m.as_ref().map(Doc::json)})).collect::<Vec<_>>(),
        })
    }
}

pub const HEADERS: &[&str] = &[")]}'\n", ")]}\n", ")]}'\r\n", "]\n", "}garbage ) ] } ' more\n", "'\r\n", ")\n"];

pub struct DocCfg {
    pub max_lines: usize,
    pub max_segs: usize,
    pub big: bool,
    pub allow_header: bool,
    pub allow_index: bool,
    pub min_sources: usize,
    pub min_names: usize,
}

impl Default for DocCfg {
    fn default() -> Self {
        DocCfg { max_lines: 8, max_segs: 10, big: false, allow_header: true, allow_index: true, min_sources: 0, min_names: 0 }
    }
}

pub fn gen_regular_doc(rng: &mut Rng, cfg: &DocCfg) -> Doc {
    let n_sources = rng.range_usize(cfg.min_sources, 4.max(cfg.min_sources));
    let n_names = rng.range_usize(cfg.min_names, 4.max(cfg.min_names));
    let sources_absent = n_sources == 0 && rng.chance(1, 3);
    let names_absent = n_names == 0 && rng.chance(1, 2);
    let sources: Vec<Option<String>> = (0..n_sources).map(|_| if rng.chance(1, 10) { None } else { Some(rng.pick(SOURCE_POOL).to_string()) }).collect();
    let names: Vec<NameVal> = (0..n_names)
        .map(|_| {
            if rng.chance(1, 6) {
                NameVal::Int(*rng.pick(&[0i128, 7, -5, 4294967296, 18446744073709551615, -9223372036854775808]))
            } else {
                NameVal::Str(rng.pick(NAME_POOL).to_string())
            }
        })
        .collect();
    let n_lines = rng.range_usize(0, cfg.max_lines);
    let mut lines: Vec<Vec<Option<RefTok>>> = vec![];
    let num = |rng: &mut Rng, small: u32| -> i128 { i128::from(gen_num(rng, small, cfg.big)) };
    for li in 0..n_lines {
        let mut items = vec![];
        if !rng.chance(1, 4) {
            for _ in 0..rng.range_usize(0, cfg.max_segs) {
                if rng.chance(1, 12) {
                    items.push(None);
                    continue;
                }
                let src = if n_sources == 0 || rng.chance(1, 5) {
                    None
                } else {
                    Some(RefSrc {
                        id: rng.below(n_sources as u64) as i128,
                        line: num(rng, 30),
                        col: num(rng, 60),
                        name: if n_names > 0 && rng.bool() { Some(rng.below(n_names as u64) as i128) } else { None },
                    })
                };
                items.push(Some(RefTok { dl: li as i128, dc: num(rng, 40), src }));
            }
        }
        if rng.chance(2, 3) {
            // mostly sorted lines, like real maps; the rest stays in arbitrary order (negative deltas)
            let mut toks: Vec<RefTok> = items.iter().flatten().cloned().collect();
            toks.sort_by_key(|t| t.dc);
            let mut it = toks.into_iter();
            for slot in items.iter_mut() {
                if slot.is_some() {
                    *slot = it.next();
                }
            }
        }
        lines.push(items);
    }
    let has_root = rng.chance(1, 3);
    let contents = if n_sources > 0 && rng.chance(1, 2) {
        Some((0..n_sources).map(|_| if rng.chance(2, 3) { Some(rng.pick(CONTENT_POOL).to_string()) } else { None }).collect())
    } else {
        None
    };
    let (debug_id, debug_id_new) = match rng.below(6) {
        0 => (Some(gen_debug_id(rng)), None),
        1 => (None, Some(gen_debug_id(rng))),
        2 => (Some(gen_debug_id(rng)), Some(gen_debug_id(rng))),
        _ => (None, None),
    };
    let ignore = if n_sources > 0 && rng.chance(1, 4) { Some((0..rng.range_usize(0, 4)).map(|_| rng.below(n_sources as u64) as u32).collect()) } else { None };
    Doc {
        kind: Kind::Regular,
        sources: if sources_absent { None } else { Some(sources) },
        names: if names_absent { None } else { Some(names) },
        root: if has_root { Some(if rng.chance(1, 6) { String::new() } else { rng.pick(ROOT_POOL).to_string() }) } else { None },
        file: if rng.bool() { Some(rng.pick(FILE_POOL).to_string()) } else { None },
        contents,
        debug_id,
        debug_id_new,
        ignore,
        mappings_absent: lines.iter().all(|l| l.iter().all(Option::is_none)) && rng.chance(1, 4),
        lines,
        fb: None,
        sections: vec![],
        header: if cfg.allow_header && rng.chance(1, 5) { Some(rng.pick(HEADERS).to_string()) } else { None },
        unknown_key: rng.chance(1, 8),
    }
}

pub fn gen_doc(rng: &mut Rng, cfg: &DocCfg) -> Doc {
    match rng.below(10) {
        0 | 1 => {
            let mut d = gen_regular_doc(rng, cfg);
            d.kind = Kind::Hermes;
            if d.sources.is_none() {
                d.sources = Some(vec![]);
            }
            d.fb = Some(
                (0..d.n_sources())
                    .map(|_| match rng.below(8) {
                        0 => FbSource::Null,
                        1 => FbSource::Metas(vec![]),
                        _ => FbSource::Metas(vec![gen_fnmap(rng, 30, 60)]),
                    })
                    .collect(),
            );
            d
        }
        2 | 3 if cfg.allow_index => {
            let n = rng.range_usize(0, 4);
            let mut offs: Vec<(u32, u32)> = vec![];
            while offs.len() < n {
                let o = (rng.below(6) as u32, rng.below(8) as u32);
                if !offs.contains(&o) {
                    offs.push(o);
                }
            }
            let inner = DocCfg { allow_header: false, allow_index: false, max_lines: 3, max_segs: 4, ..DocCfg::default() };
            let sections = offs
                .into_iter()
                .map(|(l, c)| {
                    if rng.chance(1, 6) {
                        (l, c, Some("http://h/x.map".to_string()), None)
                    } else {
                        (l, c, if rng.chance(1, 6) { Some("u".into()) } else { None }, Some(gen_doc(rng, &inner)))
                    }
                })
                .collect();
            Doc {
                kind: Kind::Index,
                sources: None,
                names: None,
                root: None,
                file: if rng.bool() { Some(rng.pick(FILE_POOL).to_string()) } else { None },
                contents: None,
                debug_id: None,
                debug_id_new: None,
                ignore: None,
                lines: vec![],
                mappings_absent: true,
                fb: None,
                sections,
                header: if cfg.allow_header && rng.chance(1, 5) { Some(rng.pick(HEADERS).to_string()) } else { None },
                unknown_key: false,
            }
        }
        _ => gen_regular_doc(rng, cfg),
    }
}

fn tok_key(t: &ObsTok) -> (u32, u32, bool, Option<String>, u32, u32, Option<String>, u32, u32) {
    if t.has_source {
        (t.dl, t.dc, true, t.source.clone(), t.sl, t.sc, t.name.clone(), t.src_id, if t.name.is_some() { t.name_id } else { !0 })
    } else {
        (t.dl, t.dc, false, None, 0, 0, None, !0, !0)
    }
}

/// Compares the crate's decode with the model's own reading. Equal positions are compared
/// as multisets.
pub fn compare_expected(want: &Obs, got: &Obs) -> Result<(), (String, String)> {
    match (want, got) {
        (Obs::Map(w), Obs::Map(g)) => {
            macro_rules! field {
                ($f:ident) => {
                    if w.$f != g.$f {
                        return Err((format!("decode:{}", stringify!($f)), format!("{}: decoded {:?}, format says {:?}", stringify!($f), g.$f, w.$f)));
                    }
                };
            }
            field!(hermes);
            field!(file);
            field!(root);
            field!(debug_id);
            field!(sources);
            field!(names);
            field!(contents);
            field!(ignore);
            field!(token_count);
            if g.tokens.windows(2).any(|p| (p[0].dl, p[0].dc) > (p[1].dl, p[1].dc)) {
                return Err(("decode:tokens-unordered".into(), "decoded tokens are not ordered by generated position".into()));
            }
            let mut wk: Vec<_> = w.tokens.iter().map(tok_key).collect();
            let mut gk: Vec<_> = g.tokens.iter().map(tok_key).collect();
            wk.sort();
            gk.sort();
            if wk != gk {
                let i = wk.iter().zip(&gk).position(|(a, b)| a != b).unwrap_or(wk.len().min(gk.len()));
                return Err(("decode:tokens".into(), format!("token multiset differs; first difference (sorted) #{i}: decoded {:?}, format says {:?}", gk.get(i), wk.get(i))));
            }
            Ok(())
        }
        (Obs::Index { file: f1, sections: s1, .. }, Obs::Index { file: f2, sections: s2, .. }) => {
            if f1 != f2 {
                return Err(("decode:index-file".into(), format!("index file decoded {f2:?}, document says {f1:?}")));
            }
            if s1.len() != s2.len() {
                return Err(("decode:section-count".into(), format!("{} sections decoded, document has {}", s2.len(), s1.len())));
            }
            for (i, (a, b)) in s1.iter().zip(s2).enumerate() {
                if a.offset != b.offset || a.url != b.url {
                    return Err(("decode:section-offset-or-url".into(), format!("section {i}: decoded {:?}/{:?}, document (sorted by offset) says {:?}/{:?}", b.offset, b.url, a.offset, a.url)));
                }
                match (&a.map, &b.map) {
                    (None, None) => {}
                    (Some(x), Some(y)) => compare_expected(x, y).map_err(|(s, d)| (s, format!("section {i}: {d}")))?,
                    _ => return Err(("decode:section-map".into(), format!("section {i}: embedded map presence differs"))),
                }
            }
            Ok(())
        }
        _ => Err(("decode:kind".into(), format!("decoded as {}, document is {}", got.kind(), want.kind()))),
    }
}

fn doc_buckets(ctx: &mut Ctx, d: &Doc) {
    ctx.bucket(&format!("kind:{:?}", d.kind));
    if d.kind == Kind::Index {
        for s in &d.sections {
            if let Some(m) = &s.3 {
                doc_buckets(ctx, m);
            }
        }
        return;
    }
    let (mut dc, mut sid, mut sl, mut sc, mut nid) = (0i128, 0i128, 0i128, 0i128, 0i128);
    for line in &d.lines {
        dc = 0;
        ctx.bucket_if(line.is_empty(), "empty-line");
        for it in line {
            match it {
                None => ctx.bucket("empty-segment"),
                Some(t) => {
                    ctx.bucket_if(t.dc < dc, "negative-delta:generated-column");
                    dc = t.dc;
                    match t.src {
                        None => ctx.bucket("arity-1"),
                        Some(s) => {
                            ctx.bucket_if(s.id < sid, "negative-delta:source-index");
                            ctx.bucket_if(s.line < sl, "negative-delta:original-line");
                            ctx.bucket_if(s.col < sc, "negative-delta:original-column");
                            sid = s.id;
                            sl = s.line;
                            sc = s.col;
                            match s.name {
                                None => ctx.bucket("arity-4"),
                                Some(n) => {
                                    ctx.bucket_if(n < nid, "negative-delta:name-index");
                                    nid = n;
                                    ctx.bucket("arity-5");
                                }
                            }
                        }
                    }
                }
            }
        }
    }
    let _ = dc;
    ctx.bucket_if(d.sources.is_none(), "key-absent:sources");
    ctx.bucket_if(d.names.is_none(), "key-absent:names");
    ctx.bucket_if(d.mappings_absent, "key-absent:mappings");
    ctx.bucket_if(d.file.is_none(), "key-absent:file");
    ctx.bucket_if(d.contents.is_none(), "key-absent:sourcesContent");
    ctx.bucket_if(d.debug_id.is_some() && d.debug_id_new.is_some(), "both-debug-ids");
    ctx.bucket_if(d.debug_id.is_none() && d.debug_id_new.is_some(), "only-debugId");
    ctx.bucket_if(d.sources.as_ref().is_some_and(|s| s.iter().any(Option::is_none)), "null-source");
    ctx.bucket_if(d.names.as_ref().is_some_and(|s| s.iter().any(|n| matches!(n, NameVal::Int(_)))), "integer-name");
    ctx.bucket_if(d.header.is_some(), "junk-header");
    if let (Some(r), Some(s)) = (&d.root, &d.sources) {
        for x in s.iter().flatten() {
            let abs = x.starts_with('/') || x.starts_with("http:") || x.starts_with("https:");
            ctx.bucket(&format!("root({})xsource({})", if r.is_empty() { "empty" } else if r.ends_with('/') { "slash" } else { "plain" }, if abs { "absolute" } else { "relative" }));
        }
    }
}

pub fn run(ctx: &mut Ctx) {
    let mut srng = Rng::new(ctx.seed ^ 0xC02);
    let n = crate::reference::vlq::self_check(&mut srng, 20_000);
    ctx.note("reference_vlq_crosschecked_against_vlq_crate", json!(n));
    crate::reference::mappings::self_check(&mut srng, 2000);
    crate::reference::metro::self_check(&mut srng);

    let total = if ctx.mode == "miri" { ctx.size(160, 160) } else { ctx.size(1_000_000, 8_000_000) };
    for n in ctx.cases("docs", total) {
        let mut rng = ctx.begin("docs", n);
        ctx.eval();
        // one document in 150 has very long lines (hundreds of segments, several KB per line)
        let long_lines = rng.chance(1, 150);
        let cfg = DocCfg { max_lines: if long_lines { 3 } else { *rng.pick(&[2, 8, 60]) }, max_segs: if long_lines { 900 } else { *rng.pick(&[3, 10, 40]) }, big: rng.chance(1, 3), ..DocCfg::default() };
        let doc = gen_doc(&mut rng, &cfg);
        let text = doc.text(&mut rng);
        doc_buckets(ctx, &doc);
        ctx.bucket_if(text.split(';').any(|l| l.len() > 4096), "line-longer-than-4096-bytes");
        let nontrivial = doc.lines.iter().any(|l| l.iter().any(Option::is_some)) || doc.sections.iter().any(|s| s.3.is_some());
        if nontrivial {
            ctx.nontrivial_bytes(text.as_bytes());
        }
        ctx.sample(|| json!({"text": text}));
        let want = doc.expected();
        // the three decoding entry points
        for entry in 0..3 {
            let name = ["decode_slice", "decode(reader)", "SourceMap::from_slice"][entry];
            ctx.op(name);
            let r = catch(|| match entry {
                0 => decode_slice(text.as_bytes()).map_err(|e| e.to_string()),
                1 => {
                    // the reader entry point sees the bytes in pieces: either one read, or random short
                    // reads, or a boundary exactly at the end of the junk header
                    let hlen = doc.header.as_ref().map_or(0, String::len);
                    let sched: Vec<usize> = match rng.below(3) {
                        0 => vec![],
                        1 if hlen > 0 => vec![hlen, usize::MAX],
                        _ => (0..rng.range_usize(1, 6)).map(|_| rng.range_usize(1, 64)).collect(),
                    };
                    decode(super::c12::Chunked::new(text.as_bytes(), &sched)).map_err(|e| e.to_string())
                }
                _ => SourceMap::from_slice(text.as_bytes()).map(DecodedMap::Regular).map_err(|e| e.to_string()),
            });
            let data = || json!({"text": text, "entry": name});
            match r {
                Err(p) => ctx.violation(&panic_sig(&p), "docs", n, format!("{name} panicked: {p}"), data()),
                Ok(Err(e)) => {
                    if entry == 2 && doc.kind != Kind::Regular {
                        ctx.bucket("from_slice-rejects-other-kind");
                    } else {
                        ctx.violation("decode:rejects-wellformed", "docs", n, format!("{name} rejected a well-formed document: {e}"), data());
                    }
                }
                Ok(Ok(m)) => {
                    if entry == 2 && doc.kind != Kind::Regular {
                        ctx.violation("decode:from_slice-accepts-other-kind", "docs", n, format!("SourceMap::from_slice accepted a {:?} document", doc.kind), data());
                        continue;
                    }
                    match catch(|| observe(&m)) {
                        Err(p) => ctx.violation(&panic_sig(&p), "docs", n, format!("observing the decoded map panicked: {p}"), data()),
                        Ok(got) => {
                            if let Err((sig, desc)) = compare_expected(&want, &got) {
                                ctx.violation(&sig, "docs", n, format!("{name}: {desc}"), data());
                            }
                        }
                    }
                }
            }
        }
        let _ = hash_value;
    }
}
