//! C01 - writing a map and reading it back yields the same map.
//!
//! History per case:  m --to_writer--> b1 --decode_slice--> m2 ; observe(m) == observe(m2)
//! (tokens compared as the statement says: exact consecutive duplicates removed, original
//! position/name ignored for sourceless tokens);  then s1 = ser(m2), s2 = ser(dec(s1)), s1 == s2.

use serde_json::json;
use sourcemap::{decode_slice, DecodedMap};

use crate::model::*;
use crate::monitor::{catch, hash_value, panic_sig, Ctx};
use crate::observe::{compare, observe, Cmp};
use crate::rng::Rng;

pub fn ser(m: &DecodedMap) -> Result<Vec<u8>, String> {
    let mut v = vec![];
    m.to_writer(&mut v).map_err(|e| e.to_string())?;
    Ok(v)
}

fn has_gap(m: &MapModel) -> bool {
    let mut lines: Vec<u32> = m.tokens.iter().map(|t| t.dl).collect();
    lines.sort_unstable();
    lines.first().is_some_and(|&l| l > 1) || lines.windows(2).any(|w| w[1] > w[0] + 1)
}

fn map_buckets(ctx: &mut Ctx, m: &MapModel) {
    ctx.bucket_if(m.tokens.iter().any(|t| t.src.is_none()), "map-with-sourceless-token");
    ctx.bucket_if(m.sorted_tokens().windows(2).any(|w| w[0] == w[1]), "map-with-exact-duplicate");
    ctx.bucket_if(m.sorted_tokens().windows(2).any(|w| (w[0].dl, w[0].dc) == (w[1].dl, w[1].dc) && w[0] != w[1]), "map-with-distinct-tokens-at-one-position");
    ctx.bucket_if(has_gap(m), "map-with-multi-line-gap");
    ctx.bucket_if(m.root.as_ref().is_some_and(|r| !r.is_empty()), "map-with-root");
    ctx.bucket_if(m.root.as_deref() == Some(""), "map-with-empty-root");
    ctx.bucket_if(m.contents.iter().any(Option::is_some) && m.contents.iter().any(Option::is_none), "map-with-partial-contents");
    ctx.bucket_if(m.debug_id.is_some(), "map-with-debug-id");
    ctx.bucket_if(!m.ignore.is_empty(), "map-with-ignore-list");
    ctx.bucket_if(m.tokens.is_empty(), "map-without-tokens");
    let used: std::collections::BTreeSet<u32> = m.tokens.iter().filter_map(|t| t.src.map(|s| s.id)).collect();
    ctx.bucket_if(used.len() < m.sources.len(), "map-with-unreferenced-source");
    let mut s = m.sources.clone();
    s.sort();
    ctx.bucket_if(s.windows(2).any(|w| w[0] == w[1]), "map-with-duplicate-source-strings");
}

fn sec_buckets(ctx: &mut Ctx, s: &SecMap, depth: u32) {
    match s {
        SecMap::Regular(m) => map_buckets(ctx, m),
        SecMap::Hermes(h) => map_buckets(ctx, &h.map),
        SecMap::Index(i) => {
            ctx.bucket_if(depth >= 1, "nested-index");
            for sec in &i.sections {
                ctx.bucket_if(sec.map.is_none(), "section-with-url-only");
                if let Some(m) = &sec.map {
                    sec_buckets(ctx, m, depth + 1);
                }
            }
        }
    }
}

pub fn gen_cfg(rng: &mut Rng) -> GenCfg {
    GenCfg {
        max_lines: *rng.pick(&[1, 3, 8]),
        max_tokens: *rng.pick(&[2, 8, 40]),
        big_numbers: rng.chance(1, 4),
        dup_pos_pct: *rng.pick(&[0, 10, 40]),
        exact_dup_pct: *rng.pick(&[0, 5, 25]),
        ..GenCfg::default()
    }
}

/// Produces (model-json, real map, kind, construction) for one case.
pub fn gen_case(rng: &mut Rng) -> (SecMap, DecodedMap, &'static str) {
    let mut cfg = gen_cfg(rng);
    match rng.below(20) {
        0..=10 => {
            let how = rng.below(3);
            if how == 1 {
                cfg.unique_strings = true;
            }
            let m = gen_map(rng, &cfg);
            let real = match how {
                0 => DecodedMap::Regular(m.build_raw(rng, true)),
                1 => DecodedMap::Regular(m.build_builder(rng)),
                _ => decode_slice(m.to_json_text(Some(rng)).as_bytes()).expect("reference-encoded model decodes"),
            };
            (SecMap::Regular(m), real, ["regular:raw-constructor", "regular:builder", "regular:decoded"][how as usize])
        }
        11..=13 => {
            let h = gen_hermes(rng, &cfg);
            let real = decode_slice(h.to_json_text(Some(rng)).as_bytes()).expect("hermes model decodes");
            (SecMap::Hermes(h), real, "hermes:decoded")
        }
        _ => {
            cfg.max_tokens = cfg.max_tokens.min(8);
            let i = gen_index(rng, &cfg, 2);
            if rng.bool() {
                let real = DecodedMap::Index(i.build(rng));
                (SecMap::Index(i), real, "index:constructed")
            } else {
                let real = decode_slice(i.to_json_text(rng).as_bytes()).expect("index model decodes");
                (SecMap::Index(i), real, "index:decoded")
            }
        }
    }
}

fn nontrivial(s: &SecMap) -> bool {
    match s {
        SecMap::Regular(m) => m.tokens.len() >= 2,
        SecMap::Hermes(h) => h.map.tokens.len() >= 2,
        SecMap::Index(i) => !i.sections.is_empty(),
    }
}

pub fn run(ctx: &mut Ctx) {
    let mut srng = Rng::new(ctx.seed ^ 0xC01);
    crate::reference::vlq::self_check(&mut srng, 2000);
    crate::reference::mappings::self_check(&mut srng, 500);
    crate::reference::metro::self_check(&mut srng);

    let total = ctx.size(600_000, 6_000_000);
    for n in ctx.cases("maps", total) {
        let mut rng = ctx.begin("maps", n);
        one(ctx, "maps", n, &mut rng, false);
    }
    // a few large maps
    let total = ctx.size(32, 400);
    for n in ctx.cases("large", total) {
        let mut rng = ctx.begin("large", n);
        one(ctx, "large", n, &mut rng, true);
    }
}

fn one(ctx: &mut Ctx, stream: &str, n: u64, rng: &mut Rng, large: bool) {
    ctx.eval();
    let built = catch(|| {
        if large {
            let cfg = GenCfg { max_lines: 400, max_tokens: if ctx.quick() { 20_000 } else { 100_000 }, max_col: 5000, ..GenCfg::default() };
            let m = gen_map(rng, &cfg);
            let real = DecodedMap::Regular(m.build_raw(rng, true));
            (SecMap::Regular(m), real, "regular:raw-constructor")
        } else {
            gen_case(rng)
        }
    });
    let (model, real, how) = match built {
        Ok(x) => x,
        Err(p) => {
            ctx.violation(&panic_sig(&p), stream, n, format!("constructing the map panicked: {p}"), json!({}));
            return;
        }
    };
    ctx.bucket(&format!("built:{how}"));
    sec_buckets(ctx, &model, 0);
    if nontrivial(&model) && !large {
        ctx.nontrivial(hash_value(&model.json()));
    } else if large {
        ctx.nontrivial(crate::rng::mix(n, 0x1a46e));
    }
    if !large {
        ctx.sample(|| json!({"construction": how, "model": model.json()}));
    }
    let mj = || if large { json!({"large": true}) } else { model.json() };

    // history
    ctx.op("to_writer");
    let b1 = match catch(|| ser(&real)) {
        Ok(Ok(b)) => b,
        Ok(Err(e)) => return ctx.violation("serialise-error", stream, n, format!("to_writer failed: {e}"), mj()),
        Err(p) => return ctx.violation(&panic_sig(&p), stream, n, format!("to_writer panicked: {p}"), mj()),
    };
    ctx.op("decode_slice");
    let m2 = match catch(|| decode_slice(&b1)) {
        Ok(Ok(m)) => m,
        Ok(Err(e)) => {
            return ctx.violation("reload-error", stream, n, format!("decode_slice(to_writer(m)) failed: {e}"), json!({"model": mj(), "bytes": String::from_utf8_lossy(&b1)}))
        }
        Err(p) => return ctx.violation(&panic_sig(&p), stream, n, format!("decode_slice(to_writer(m)) panicked: {p}"), mj()),
    };
    let (o1, o2) = match catch(|| (observe(&real), observe(&m2))) {
        Ok(x) => x,
        Err(p) => return ctx.violation(&panic_sig(&p), stream, n, format!("observing the maps panicked: {p}"), mj()),
    };
    match compare(&o1, &o2, false) {
        Cmp::Equal => {}
        Cmp::EqualUpToTieOrder => ctx.bucket("equal-up-to-order-of-tokens-sharing-a-position"),
        Cmp::Different(d) => {
            let what = d.split_whitespace().next().unwrap_or("?").to_string();
            ctx.violation(
                &format!("roundtrip-differs:{}", what.trim_end_matches(':')),
                stream,
                n,
                format!("map built by {how} differs after write+read: {d}"),
                json!({"model": mj(), "bytes": String::from_utf8_lossy(&b1[..b1.len().min(4000)])}),
            );
            return;
        }
    }
    // Hermes function maps have no accessor of their own: besides the per-token scopes compared
    // above, the serialised x_facebook_sources value must describe the function maps the map was
    // decoded from. "The same function map" is the same list of names and the same decoded
    // (line, column, name) entries - how the mapping string spells them (group separators, omitted
    // zero fields) is left to the writer; a string the Metro reference cannot read must be kept as is.
    if let SecMap::Hermes(h) = &model {
        fn normalise(v: &serde_json::Value) -> serde_json::Value {
            let mut v = v.clone();
            if let Some(list) = v.as_array_mut() {
                for meta in list.iter_mut() {
                    if let Some(fm) = meta.get_mut(0).and_then(|m| m.as_object_mut()) {
                        let decoded = fm.get("mappings").and_then(|m| m.as_str()).and_then(crate::reference::metro::decode);
                        if let Some(entries) = decoded {
                            fm.insert("mappings".into(), json!(entries.iter().map(|e| format!("{e:?}")).collect::<Vec<_>>()));
                        }
                    }
                }
            }
            v
        }
        let want_raw: serde_json::Value = serde_json::from_str(&h.fb_json_text()).expect("model JSON");
        let got_raw = serde_json::from_slice::<serde_json::Value>(&b1).ok().and_then(|v| v.get("x_facebook_sources").cloned());
        let want = normalise(&want_raw);
        let got = got_raw.as_ref().map(normalise);
        ctx.bucket("hermes-function-map-json-compared");
        if got_raw.as_ref() != Some(&want_raw) {
            ctx.bucket("hermes-function-map-json-respelled");
        }
        if got.as_ref() != Some(&want) {
            ctx.violation(
                "roundtrip-differs:hermes-function-maps",
                stream,
                n,
                format!("x_facebook_sources after write: {}, the map was decoded from {} (compared after decoding the function-map strings)", got_raw.map_or("<absent>".to_string(), |g| g.to_string()), want_raw),
                mj(),
            );
            return;
        }
    }
    // byte idempotence on decoded maps
    let r = catch(|| -> Result<(Vec<u8>, Vec<u8>), String> {
        let s1 = ser(&m2)?;
        let d2 = decode_slice(&s1).map_err(|e| e.to_string())?;
        let s2 = ser(&d2)?;
        Ok((s1, s2))
    });
    ctx.op_n("to_writer", 2);
    ctx.op("decode_slice");
    match r {
        Err(p) => ctx.violation(&panic_sig(&p), stream, n, format!("second round trip panicked: {p}"), mj()),
        Ok(Err(e)) => ctx.violation("second-roundtrip-error", stream, n, format!("second round trip failed: {e}"), mj()),
        Ok(Ok((s1, s2))) => {
            if s1 != s2 {
                ctx.violation(
                    "bytes-not-idempotent",
                    stream,
                    n,
                    "ser(dec(ser(d))) != ser(d) for a decoded map d".into(),
                    json!({"model": mj(), "s1": String::from_utf8_lossy(&s1[..s1.len().min(3000)]), "s2": String::from_utf8_lossy(&s2[..s2.len().min(3000)])}),
                );
            }
        }
    }
}
