//! C12 - reader, slice and data-URL decoding agree, however the stream is chunked
//! (fault enumeration over headers x chunk schedules x document damage).

use std::io::Read;

use serde_json::json;
use sourcemap::{decode, decode_data_url, decode_slice, is_sourcemap, is_sourcemap_slice, DecodedMap};

use super::c02::{gen_doc, DocCfg};
use crate::monitor::{catch, panic_sig, Ctx};
use crate::observe::{compare, observe, Cmp};
use crate::rng::Rng;

/// A `Read` that hands out the bytes in the chunk sizes of `schedule` (cycled); never returns
/// 0 before the end of the data.
pub struct Chunked<'a> {
    data: &'a [u8],
    pos: usize,
    schedule: &'a [usize],
    idx: usize,
    pub reads: usize,
}

impl<'a> Chunked<'a> {
    pub fn new(data: &'a [u8], schedule: &'a [usize]) -> Self {
        Chunked { data, pos: 0, schedule, idx: 0, reads: 0 }
    }
}

impl Read for Chunked<'_> {
    fn read(&mut self, buf: &mut [u8]) -> std::io::Result<usize> {
        let want = if self.schedule.is_empty() { usize::MAX } else { self.schedule[self.idx % self.schedule.len()].max(1) };
        self.idx += 1;
        let n = want.min(buf.len()).min(self.data.len() - self.pos);
        buf[..n].copy_from_slice(&self.data[self.pos..self.pos + n]);
        self.pos += n;
        self.reads += 1;
        Ok(n)
    }
}

pub fn b64(data: &[u8]) -> String {
    const A: &[u8; 64] = b"ABCDEFGHIJKLMNOPQRSTUVWXYZabcdefghijklmnopqrstuvwxyz0123456789+/";
    let mut out = String::new();
    for c in data.chunks(3) {
        let n = (u32::from(c[0]) << 16) | (u32::from(*c.get(1).unwrap_or(&0)) << 8) | u32::from(*c.get(2).unwrap_or(&0));
        out.push(A[(n >> 18) as usize & 63] as char);
        out.push(A[(n >> 12) as usize & 63] as char);
        out.push(if c.len() > 1 { A[(n >> 6) as usize & 63] as char } else { '=' });
        out.push(if c.len() > 2 { A[n as usize & 63] as char } else { '=' });
    }
    out
}

/// Reference junk-header rule: Some(rest) if no header or a header that ends properly,
/// None if the header must be rejected (bare CR) or never ends.
fn reference_strip(data: &[u8]) -> Option<&[u8]> {
    match data.first() {
        Some(b')') | Some(b']') | Some(b'}') | Some(b'\'') => {}
        _ => return Some(data),
    }
    let mut i = 0;
    while i < data.len() {
        match data[i] {
            b'\n' => return Some(&data[i + 1..]),
            b'\r' => {
                return if data.get(i + 1) == Some(&b'\n') { Some(&data[i + 2..]) } else { None };
            }
            _ => i += 1,
        }
    }
    None // header only, no newline: nothing left to parse
}

#[derive(Debug)]
enum Outcome {
    Err(String),
    Ok(Box<crate::observe::Obs>),
}

fn outcome(r: Result<DecodedMap, sourcemap::Error>) -> Outcome {
    match r {
        Ok(m) => Outcome::Ok(Box::new(observe(&m))),
        Err(e) => Outcome::Err(e.to_string()),
    }
}

fn same(a: &Outcome, b: &Outcome) -> Result<&'static str, String> {
    match (a, b) {
        (Outcome::Err(_), Outcome::Err(_)) => Ok("both-err"),
        (Outcome::Ok(x), Outcome::Ok(y)) => match compare(x, y, true) {
            Cmp::Equal | Cmp::EqualUpToTieOrder => Ok("both-ok"),
            Cmp::Different(d) => Err(format!("both succeed but the maps differ: {d}")),
        },
        (Outcome::Ok(_), Outcome::Err(e)) => Err(format!("first succeeds, second fails with: {e}")),
        (Outcome::Err(e), Outcome::Ok(_)) => Err(format!("first fails with: {e}; second succeeds")),
    }
}

const JUNK: &[u8] = b")]}'";

fn headers(rng: &mut Rng) -> Vec<(Vec<u8>, &'static str)> {
    let mut v: Vec<(Vec<u8>, &'static str)> = vec![(vec![], "none")];
    for &j in JUNK {
        v.push((vec![j, b'\n'], "junk-byte+LF"));
        v.push((vec![j, b'\r', b'\n'], "junk-byte+CRLF"));
        v.push((vec![j, b'\r'], "junk-byte+bareCR"));
    }
    v.push((b")]}'\n".to_vec(), "classic+LF"));
    v.push((b")]}'\r\n".to_vec(), "classic+CRLF"));
    v.push((b")]}'\r".to_vec(), "classic+bareCR"));
    v.push((b")]}' garbage } ] ) ' {\"x\":1}\n".to_vec(), "garbage+LF"));
    v.push((b"}while(1);\r\n".to_vec(), "garbage+CRLF"));
    v.push((b")]}'ab\rcd\n".to_vec(), "CR-inside-header"));
    v.push((b")]}'\r\r\n".to_vec(), "CRCRLF"));
    v.push((b")]}'\r)\n".to_vec(), "CR-then-junk-byte-then-LF"));
    v.push((b")\r]\r\n".to_vec(), "CR-then-junk-byte-then-CRLF"));
    v.push((b"}\r'})]\n".to_vec(), "CR-then-junk-bytes-then-LF"));
    v.push((b")]}'\n\n".to_vec(), "LF-LF"));
    let mut g = vec![*rng.pick(JUNK)];
    for _ in 0..rng.range_usize(0, 30) {
        g.push(*rng.pick(b"abc )]}'{\"\\:,0\t)]}'\r"));
    }
    g.push(b'\n');
    v.push((g, "random-garbage+LF"));
    v
}

fn schedules(total_len: usize, header_len: usize, rng: &mut Rng, all_boundaries: bool) -> Vec<(Vec<usize>, String)> {
    let mut s: Vec<(Vec<usize>, String)> = vec![(vec![1], "1-byte-reads".into()), (vec![], "one-read-larger-than-input".into())];
    for k in [2usize, 3, 7, 8191, 8192, 8193] {
        s.push((vec![k], format!("fixed-{k}")));
    }
    // a boundary at every offset of header + first 16 document bytes
    let upto = (header_len + 16).min(total_len);
    let offsets: Vec<usize> = if all_boundaries { (1..=upto).collect() } else { (0..4).map(|_| rng.range_usize(1, upto.max(1))).collect() };
    for off in offsets {
        let label = if header_len == 0 {
            "boundary:in-document"
        } else if off < header_len.saturating_sub(1) {
            "boundary:inside-header"
        } else if off == header_len - 1 {
            "boundary:before-last-header-byte(between CR and LF when CRLF)"
        } else if off == header_len {
            "boundary:exactly-after-header"
        } else {
            "boundary:in-document"
        };
        s.push((vec![off, usize::MAX], label.to_string()));
    }
    for _ in 0..3 {
        let v: Vec<usize> = (0..rng.range_usize(2, 9)).map(|_| rng.range_usize(1, 12)).collect();
        s.push((v, "random-short-reads".into()));
    }
    s
}

pub fn run(ctx: &mut Ctx) {
    assert_eq!(reference_strip(b")]}'\n{}"), Some(&b"{}"[..]));
    assert_eq!(reference_strip(b")]}'\r\n{}"), Some(&b"{}"[..]));
    assert_eq!(reference_strip(b")]}'\r{}"), None);
    assert_eq!(reference_strip(b"{}"), Some(&b"{}"[..]));
    assert_eq!(reference_strip(b")]}"), None);
    assert_eq!(b64(b"any carnal pleas"), "YW55IGNhcm5hbCBwbGVhcw==");
    assert_eq!(b64(b"any carnal pleasu"), "YW55IGNhcm5hbCBwbGVhc3U=");

    let miri = ctx.mode == "miri";
    let total = if miri { 16 } else { ctx.size(8_000, 120_000) };
    for n in ctx.cases("docs", total) {
        let mut rng = ctx.begin("docs", n);
        let cfg = DocCfg { max_lines: *rng.pick(&[1, 3, 6]), max_segs: *rng.pick(&[2, 5]), big: rng.chance(1, 5), allow_header: false, ..DocCfg::default() };
        let doc = gen_doc(&mut rng, &cfg);
        let base = doc.text(&mut rng).into_bytes();
        // document variants: intact, truncated, corrupted
        let mut variants: Vec<(Vec<u8>, String)> = vec![(base.clone(), format!("valid:{:?}", doc.kind))];
        if base.len() <= 400 && !miri {
            let step = if ctx.quick() { 1 + base.len() / 40 } else { 1 };
            for len in (0..base.len()).step_by(step) {
                variants.push((base[..len].to_vec(), "truncated".into()));
            }
        } else {
            for _ in 0..6 {
                let len = rng.usize_below(base.len());
                variants.push((base[..len].to_vec(), "truncated".into()));
            }
        }
        for _ in 0..(if miri { 2 } else { 8 }) {
            let mut c = base.clone();
            let i = rng.usize_below(c.len());
            c[i] = match rng.below(4) {
                0 => rng.next_u32() as u8,
                1 => *rng.pick(b"{}[]\",:\\"),
                2 => c[i] ^ (1 << rng.below(8)),
                _ => *rng.pick(b"AZaz09+/;,"),
            };
            variants.push((c, "corrupted-byte".into()));
        }
        let hdrs = headers(&mut rng);
        for (vi, (body, vkind)) in variants.iter().enumerate() {
            // intact documents meet every header and every schedule; damaged ones a sample
            let hsel: Vec<usize> = if vi == 0 { (0..hdrs.len()).collect() } else { vec![0, rng.usize_below(hdrs.len())] };
            for hi in hsel {
                let (h, hkind) = &hdrs[hi];
                let mut bytes = h.clone();
                bytes.extend_from_slice(body);
                let slice_out = match catch(|| outcome(decode_slice(&bytes))) {
                    Ok(o) => o,
                    Err(p) => {
                        ctx.violation(&panic_sig(&p), "docs", n, format!("decode_slice panicked: {p}"), json!({"bytes": String::from_utf8_lossy(&bytes)}));
                        continue;
                    }
                };
                ctx.op("decode_slice");
                let slice_is = is_sourcemap_slice(&bytes);
                ctx.op("is_sourcemap_slice");
                // reference header rule: what the header must do to the document
                match (reference_strip(&bytes), h.is_empty()) {
                    (None, _) => {
                        ctx.bucket(if hkind.contains("CR") { "bare-CR-header" } else { "header-never-ends" });
                        ctx.bucket_if(hkind.starts_with("CR-then-junk"), "bare-CR-followed-by-junk-start-byte");
                        if let Outcome::Ok(_) = slice_out {
                            ctx.violation("bad-header-accepted", "docs", n, format!("decode_slice accepted a document behind a junk header with a bare CR / without end ({hkind})"), json!({"bytes": String::from_utf8_lossy(&bytes)}));
                        }
                    }
                    (Some(_), false) if vi == 0 => {
                        // a proper header in front of a valid document must be skipped: same map as without it
                        let plain = outcome(decode_slice(body));
                        if let Err(d) = same(&plain, &slice_out) {
                            ctx.violation("header-not-skipped", "docs", n, format!("document without header vs. with header {hkind}: {d}"), json!({"bytes": String::from_utf8_lossy(&bytes)}));
                        }
                        ctx.bucket(&format!("header-skipped:{hkind}"));
                    }
                    _ => {}
                }
                // typed entry points: from_reader must agree with from_slice (intact documents, all headers)
                if vi == 0 {
                    let sched = [rng.range_usize(1, 9), rng.range_usize(1, 40)];
                    let r = catch(|| {
                        let a = (
                            sourcemap::SourceMap::from_slice(&bytes).map(DecodedMap::Regular),
                            sourcemap::SourceMapIndex::from_slice(&bytes).map(DecodedMap::Index),
                            sourcemap::SourceMapHermes::from_slice(&bytes).map(DecodedMap::Hermes),
                        );
                        let b = (
                            sourcemap::SourceMap::from_reader(Chunked::new(&bytes, &sched)).map(DecodedMap::Regular),
                            sourcemap::SourceMapIndex::from_reader(Chunked::new(&bytes, &sched)).map(DecodedMap::Index),
                            sourcemap::SourceMapHermes::from_reader(Chunked::new(&bytes, &sched)).map(DecodedMap::Hermes),
                        );
                        [(outcome(a.0), outcome(b.0)), (outcome(a.1), outcome(b.1)), (outcome(a.2), outcome(b.2))]
                    });
                    ctx.op_n("typed from_slice/from_reader", 6);
                    match r {
                        Err(p) => ctx.violation(&panic_sig(&p), "docs", n, format!("typed entry point panicked: {p}"), json!({"bytes": String::from_utf8_lossy(&bytes)})),
                        Ok(pairs) => {
                            let mut oks = 0;
                            for (k, (a, b)) in pairs.iter().enumerate() {
                                let which = ["SourceMap", "SourceMapIndex", "SourceMapHermes"][k];
                                match same(a, b) {
                                    Ok("both-ok") => oks += 1,
                                    Ok(_) => {}
                                    Err(d) => ctx.violation("typed-reader-vs-slice", "docs", n, format!("{which}::from_slice vs {which}::from_reader (header {hkind}): {d}"), json!({"bytes": String::from_utf8_lossy(&bytes), "chunks": sched})),
                                }
                            }
                            // exactly one typed entry point accepts a document the generic one accepts
                            if let Outcome::Ok(_) = slice_out {
                                if oks != 1 {
                                    ctx.violation("typed-entry-points-kind", "docs", n, format!("{oks} of the three typed entry points accept a document that decode_slice accepts"), json!({"bytes": String::from_utf8_lossy(&bytes)}));
                                } else {
                                    ctx.bucket("typed-entry-points-agree");
                                }
                            }
                        }
                    }
                }
                // every schedule against the slice result
                let scheds = schedules(bytes.len(), h.len(), &mut rng, vi == 0 && !miri);
                let scheds: Vec<_> = if vi == 0 { scheds } else { scheds.into_iter().filter(|_| rng.chance(1, 3)).collect() };
                for (sched, skind) in &scheds {
                    ctx.eval();
                    ctx.op("decode(reader)");
                    ctx.op("is_sourcemap(reader)");
                    let r = catch(|| {
                        let o = outcome(decode(Chunked::new(&bytes, sched)));
                        let is = is_sourcemap(Chunked::new(&bytes, sched));
                        (o, is)
                    });
                    let data = || json!({"bytes": String::from_utf8_lossy(&bytes), "header": hkind, "document": vkind, "schedule": skind, "chunks": sched.iter().map(|&x| if x == usize::MAX { -1 } else { x as i64 }).collect::<Vec<_>>()});
                    match r {
                        Err(p) => ctx.violation(&panic_sig(&p), "docs", n, format!("decode from a chunked reader panicked: {p}"), data()),
                        Ok((o, is)) => {
                            match same(&slice_out, &o) {
                                Ok(k) => {
                                    ctx.bucket(&format!("{k}:{}", vkind.split(':').next().unwrap()));
                                    if k == "both-ok" {
                                        ctx.bucket(&format!("both-ok:{}", slice_out_kind(&slice_out)));
                                    }
                                }
                                Err(d) => {
                                    let who = match reference_strip(&bytes) {
                                        None => "the header must be rejected, so the side that succeeds is wrong",
                                        Some(_) => "the header (if any) is well-formed, so both sides should treat the rest alike",
                                    };
                                    ctx.violation("reader-vs-slice", "docs", n, format!("decode_slice vs decode(reader, schedule {skind}) with header {hkind} on a {vkind} document: {d} [{who}]"), data());
                                }
                            }
                            if is != slice_is {
                                ctx.violation("is_sourcemap-reader-vs-slice", "docs", n, format!("is_sourcemap_slice = {slice_is}, is_sourcemap(reader, schedule {skind}) = {is} (header {hkind}, {vkind} document)"), data());
                            }
                            ctx.bucket(&format!("schedule:{}", skind.split('-').next().unwrap_or(skind)));
                            if !h.is_empty() || sched.len() > 1 || sched == &[1] {
                                ctx.nontrivial(crate::rng::mix(crate::rng::fnv1a(&bytes), crate::rng::fnv1a(format!("{sched:?}").as_bytes())));
                            }
                        }
                    }
                }
                // data URL of these bytes
                for preamble in ["data:application/json;base64,", "data:application/json;charset=utf-8;base64,"] {
                    ctx.eval();
                    ctx.op("decode_data_url");
                    let url = format!("{preamble}{}", b64(&bytes));
                    match catch(|| outcome(decode_data_url(&url))) {
                        Err(p) => ctx.violation(&panic_sig(&p), "docs", n, format!("decode_data_url panicked: {p}"), json!({"url": url})),
                        Ok(o) => match same(&slice_out, &o) {
                            Ok(k) => ctx.bucket(&format!("data-url:{k}")),
                            Err(d) => ctx.violation(
                                if preamble.contains("charset") { "data-url-with-charset-vs-payload" } else { "data-url-vs-payload" },
                                "docs",
                                n,
                                format!("decode_slice(payload) vs decode_data_url({preamble}...): {d}"),
                                json!({"url": url, "payload": String::from_utf8_lossy(&bytes)}),
                            ),
                        },
                    }
                }
                if vi == 0 && hi < 3 {
                    ctx.sample(|| json!({"bytes": String::from_utf8_lossy(&bytes), "header": hkind, "schedules": scheds.iter().map(|s| s.1.clone()).collect::<Vec<_>>()}));
                }
            }
        }
    }
}

fn slice_out_kind(o: &Outcome) -> &'static str {
    match o {
        Outcome::Ok(m) => m.kind(),
        Outcome::Err(_) => "err",
    }
}
