//! C05 core: "decode untrusted bytes, then query everything". Self-contained (depends only on
//! the sourcemap crate and std) so that the libFuzzer target under /verif/fuzz includes the very
//! same file. Nothing in here catches panics: the harness wraps `drive` in its panic monitor,
//! the fuzz target lets libFuzzer see the crash.

use std::io::Read;

use sourcemap::{
    decode, decode_data_url, decode_slice, is_sourcemap, is_sourcemap_slice, locate_sourcemap_reference, locate_sourcemap_reference_slice, DecodedMap, RewriteOptions, SourceMap,
    SourceMapHermes, SourceMapIndex, SourceView,
};

/// Reader that returns the data in small pieces (7 bytes at a time).
struct Dribble<'a>(&'a [u8]);
impl Read for Dribble<'_> {
    fn read(&mut self, buf: &mut [u8]) -> std::io::Result<usize> {
        let n = self.0.len().min(buf.len()).min(7);
        buf[..n].copy_from_slice(&self.0[..n]);
        self.0 = &self.0[n..];
        Ok(n)
    }
}

pub const MINIFIED: &str = "function a(b){return b+1}var é=function ab(){a(2)};\n\"😀\";function $(_x){é()}\r\n/*x*/function\tf1 (){}";
const NAMES: &[&str] = &["a", "é", "function", "ab", "a.b", ""];
const PREFIX_SETS: &[&[&str]] = &[&[], &["/a"], &["/a", "/a/b", "x", ""], &["~"]];

pub struct Stats {
    pub ops: u64,
    pub ok_kind: Option<&'static str>,
    pub err_after_json: bool,
    pub post_actions: u64,
}

fn fmt_len<T: std::fmt::Debug>(t: &T) -> usize {
    format!("{t:?}").len()
}

fn max_line(sm: &SourceMap) -> u32 {
    sm.tokens().map(|t| t.get_dst_line()).max().unwrap_or(0)
}

fn dm_max_line(m: &DecodedMap, depth: u32) -> u64 {
    match m {
        DecodedMap::Regular(s) => u64::from(max_line(s)),
        DecodedMap::Hermes(h) => u64::from(max_line(h)),
        DecodedMap::Index(i) => {
            if depth > 300 {
                return u64::MAX;
            }
            i.sections().map(|s| s.get_sourcemap().map_or(0, |m| dm_max_line(m, depth + 1))).max().unwrap_or(0)
        }
    }
}

/// total number of ';' a serialisation would have to write (sum over all embedded maps)
fn dm_total_lines(m: &DecodedMap, depth: u32) -> u64 {
    match m {
        DecodedMap::Regular(s) => u64::from(max_line(s)),
        DecodedMap::Hermes(h) => u64::from(max_line(h)),
        DecodedMap::Index(i) => {
            if depth > 300 {
                return u64::MAX;
            }
            i.sections().map(|s| s.get_sourcemap().map_or(0, |m| dm_total_lines(m, depth + 1))).fold(0u64, |a, b| a.saturating_add(b))
        }
    }
}

pub const MAX_SERIALISED_LINES: u64 = 100_000;

fn reserialise(m: &DecodedMap, st: &mut Stats) -> Result<(), String> {
    if dm_max_line(m, 0) >= MAX_SERIALISED_LINES || dm_total_lines(m, 0) >= 4 * MAX_SERIALISED_LINES {
        return Ok(());
    }
    let mut out = vec![];
    st.post_actions += 1;
    m.to_writer(&mut out).map_err(|e| format!("to_writer failed on a decoded map: {e}"))?;
    match decode_slice(&out) {
        Ok(_) => Ok(()),
        Err(e) => Err(format!("the serialised form of a decoded map does not decode again: {e}; output starts {:?}", String::from_utf8_lossy(&out[..out.len().min(300)]))),
    }
}

fn query_view(sv: &SourceView, l: u32, c: u32) {
    let _ = sv.get_line(l);
    let _ = sv.get_line_slice(l, c, 5);
    let _ = sv.get_line_slice(l, c, u32::MAX);
    let _ = sv.line_count();
    let _ = sv.sourcemap_reference();
    let _ = sv.lines().take(4).count();
}

/// Every read-only query on a regular map. `texts`: minified sources for name resolution.
fn post_sm(sm: &SourceMap, texts: &[&str], st: &mut Stats, full: bool) {
    let n = sm.get_token_count();
    let mut sink = 0usize;
    for (i, t) in sm.tokens().enumerate() {
        sink += t.get_dst_line() as usize + t.get_dst_col() as usize + t.get_src_line() as usize + t.get_src_col() as usize;
        sink += t.get_source().map_or(0, str::len) + t.get_name().map_or(0, str::len) + t.to_tuple().0.len();
        sink += usize::from(t.has_source()) + usize::from(t.has_name()) + usize::from(t.is_range()) + t.get_src_id() as usize + t.get_name_id() as usize;
        let _ = t.get_raw_token();
        let _ = t.get_dst();
        let _ = t.get_src();
        if i < 300 {
            sink += format!("{t}").len() + format!("{t:#}").len() + fmt_len(&t);
            if let Some(v) = t.get_source_view() {
                query_view(v, t.get_src_line(), t.get_src_col());
            }
            let _ = t.sourcemap().get_token_count();
        }
        if i > 50_000 {
            break;
        }
    }
    st.post_actions += 4;
    // lookups
    let mut positions: Vec<(u32, u32)> = vec![(0, 0), (u32::MAX, u32::MAX), (0, u32::MAX), (u32::MAX, 0), (1, 1)];
    let stride = (n as usize / 64).max(1);
    for t in sm.tokens().step_by(stride).take(80) {
        let (l, c) = t.get_dst();
        positions.extend_from_slice(&[(l, c), (l, c.wrapping_add(1)), (l, c.wrapping_sub(1)), (l.wrapping_add(1), c), (l.wrapping_sub(1), c), (l.wrapping_add(1), 0), (l, u32::MAX)]);
    }
    for &(l, c) in &positions {
        if let Some(t) = sm.lookup_token(l, c) {
            sink += t.get_src_col() as usize + format!("{t:#}").len() + t.get_source().map_or(0, str::len);
            let _ = t.get_source_view();
        }
    }
    let mut it = sm.tokens();
    let _ = it.seek(positions[positions.len() / 2].0, positions[positions.len() / 2].1);
    let _ = it.next();
    st.post_actions += 2;
    // accessors with any index
    let counts = [n, sm.get_source_count(), sm.get_name_count()];
    for base in counts {
        for idx in [0u32, base.wrapping_sub(1), base, base.wrapping_add(1), u32::MAX, u32::MAX - 1, 1 << 31] {
            let _ = sm.get_token(idx as usize);
            let _ = sm.get_source(idx);
            let _ = sm.get_name(idx);
            let _ = sm.get_source_contents(idx);
            if let Some(v) = sm.get_source_view(idx) {
                query_view(v, 0, 0);
            }
        }
    }
    sink += sm.sources().count() + sm.names().count() + sm.source_contents().count() + sm.ignore_list().count();
    sink += sm.get_file().map_or(0, str::len) + sm.get_source_root().map_or(0, str::len) + usize::from(sm.has_names());
    let _ = sm.get_debug_id();
    st.post_actions += 3;
    if full {
        if n < 5_000 {
            sink += fmt_len(sm);
        }
        // name resolution against several minified texts
        for text in texts {
            let sv = SourceView::new((*text).into());
            for &(l, c) in positions.iter().take(10) {
                for name in NAMES {
                    sink += sm.get_original_function_name(l, c, name, &sv).map_or(0, str::len);
                }
            }
            if let Some(t) = sm.lookup_token(positions[5 % positions.len()].0, positions[5 % positions.len()].1) {
                sink += sv.get_original_function_name(t, "a").map_or(0, str::len);
            }
        }
        st.post_actions += 1;
    }
    std::hint::black_box(sink);
}

fn rewrites(sm: &SourceMap, texts: &[&str], st: &mut Stats) -> Result<(), String> {
    for with_names in [true, false] {
        for with_source_contents in [true, false] {
            for prefixes in PREFIX_SETS {
                let opts = RewriteOptions { with_names, with_source_contents, strip_prefixes: prefixes, ..Default::default() };
                st.post_actions += 1;
                let out = sm.clone().rewrite(&opts).map_err(|e| format!("rewrite failed: {e}"))?;
                post_sm(&out, texts, st, false);
                if with_names && with_source_contents {
                    reserialise(&DecodedMap::Regular(out), st)?;
                }
            }
        }
    }
    Ok(())
}

fn post(m: &DecodedMap, texts: &[&str], st: &mut Stats, depth: u32, budget: &mut u32) -> Result<(), String> {
    if *budget == 0 {
        return Ok(());
    }
    *budget -= 1;
    match m {
        DecodedMap::Regular(sm) => {
            post_sm(sm, texts, st, true);
            for &(l, c) in &[(0u32, 0u32), (0, 7), (3, 1)] {
                let _ = m.lookup_token(l, c);
                let sv = SourceView::new(texts[texts.len() - 1].into());
                let _ = m.get_original_function_name(l, c, Some("a"), Some(&sv));
                let _ = m.get_original_function_name(l, c, None, None);
            }
            rewrites(sm, texts, st)?;
        }
        DecodedMap::Hermes(h) => {
            post_sm(h, texts, st, true);
            let mut sink = 0;
            for t in h.tokens().take(20_000) {
                sink += h.get_scope_for_token(t).map_or(0, str::len);
            }
            for off in [0u32, 1, 7, 100, 1 << 31, u32::MAX] {
                sink += h.get_original_function_name(off).map_or(0, str::len);
                sink += m.get_original_function_name(0, off, None, None).map_or(0, str::len);
                sink += m.get_original_function_name(off, 0, None, None).map_or(0, str::len);
            }
            std::hint::black_box(sink);
            st.post_actions += 2;
            for with_names in [true, false] {
                for prefixes in PREFIX_SETS {
                    let opts = RewriteOptions { with_names, with_source_contents: with_names, strip_prefixes: prefixes, ..Default::default() };
                    st.post_actions += 1;
                    let out: SourceMapHermes = h.clone().rewrite(&opts).map_err(|e| format!("Hermes rewrite failed: {e}"))?;
                    post_sm(&out, texts, st, false);
                    for t in out.tokens().take(2_000) {
                        let _ = out.get_scope_for_token(t);
                    }
                    let _ = out.get_original_function_name(3);
                    if with_names {
                        reserialise(&DecodedMap::Hermes(out), st)?;
                    }
                }
            }
            rewrites(h, texts, st)?;
        }
        DecodedMap::Index(i) => {
            let n = i.get_section_count();
            let mut sink = i.get_file().map_or(0, str::len) + usize::from(i.is_for_ram_bundle());
            sink += i.x_facebook_offsets().map_or(0, <[_]>::len) + i.x_metro_module_paths().map_or(0, <[_]>::len);
            for idx in [0u32, n.wrapping_sub(1), n, u32::MAX] {
                if let Some(s) = i.get_section(idx) {
                    sink += s.get_offset_line() as usize + s.get_offset_col() as usize + s.get_url().map_or(0, str::len);
                    let _ = s.get_offset();
                }
            }
            let mut positions: Vec<(u32, u32)> = vec![(0, 0), (u32::MAX, u32::MAX), (0, u32::MAX), (u32::MAX, 0)];
            for s in i.sections().take(40) {
                let (l, c) = s.get_offset();
                positions.extend_from_slice(&[(l, c), (l, c.wrapping_add(1)), (l, c.wrapping_sub(1)), (l.wrapping_add(1), 0), (l.wrapping_sub(1), u32::MAX), (l.wrapping_add(2), c)]);
            }
            let sv = SourceView::new(texts[texts.len() - 1].into());
            for &(l, c) in &positions {
                if let Some(t) = i.lookup_token(l, c) {
                    sink += t.get_src_col() as usize + format!("{t:#}").len();
                }
                let _ = m.lookup_token(l, c);
                for name in ["a", "é"] {
                    sink += i.get_original_function_name(l, c, name, &sv).map_or(0, str::len);
                }
            }
            std::hint::black_box(sink);
            st.post_actions += 3;
            if depth < 6 {
                for s in i.sections().take(6) {
                    if let Some(inner) = s.get_sourcemap() {
                        post(inner, texts, st, depth + 1, budget)?;
                    }
                }
            }
            st.post_actions += 1;
            if let Ok(flat) = i.flatten() {
                post_sm(&flat, texts, st, true);
                if u64::from(max_line(&flat)) < MAX_SERIALISED_LINES {
                    reserialise(&DecodedMap::Regular(flat), st)?;
                }
            }
            for prefixes in PREFIX_SETS.iter().take(2) {
                let opts = RewriteOptions { with_names: prefixes.is_empty(), with_source_contents: true, strip_prefixes: prefixes, ..Default::default() };
                st.post_actions += 1;
                if let Ok(out) = i.clone().flatten_and_rewrite(&opts) {
                    post_sm(&out, texts, st, false);
                }
            }
        }
    }
    if depth == 0 {
        reserialise(m, st)?;
    }
    Ok(())
}

/// Drives every decoding / detection entry point on `bytes` and, when a map comes back, every
/// query. Err(description) = a non-panic violation (e.g. serialised form does not decode).
pub fn drive(bytes: &[u8], st: &mut Stats) -> Result<(), String> {
    let lossy = String::from_utf8_lossy(bytes);
    // entry points
    let r = decode_slice(bytes);
    let _ = decode(bytes);
    let _ = decode(Dribble(bytes));
    let _ = SourceMap::from_slice(bytes).map(|m| m.get_token_count());
    let _ = SourceMap::from_reader(bytes).map(|m| m.get_token_count());
    let _ = SourceMapIndex::from_slice(bytes).map(|m| m.get_section_count());
    let _ = SourceMapIndex::from_reader(Dribble(bytes)).map(|m| m.get_section_count());
    let _ = SourceMapHermes::from_slice(bytes).map(|m| m.get_token_count());
    let _ = SourceMapHermes::from_reader(bytes).map(|m| m.get_token_count());
    let _ = DecodedMap::from_reader(bytes).is_ok();
    let _ = is_sourcemap_slice(bytes);
    let _ = is_sourcemap(bytes);
    let _ = is_sourcemap(Dribble(bytes));
    let a = locate_sourcemap_reference_slice(bytes);
    let _ = locate_sourcemap_reference(Dribble(bytes));
    if let Ok(Some(r)) = a {
        let _ = r.get_url().len();
        let _ = r.resolve("http://example.com/a/b.js");
        let _ = r.resolve("not a url");
        let _ = r.get_embedded_sourcemap().is_ok();
    }
    let _ = decode_data_url(&lossy).is_ok();
    if lossy.len() < 4096 {
        let _ = decode_data_url(&format!("data:application/json;base64,{lossy}")).is_ok();
    }
    st.ops += 17;
    match &r {
        Err(e) => {
            st.err_after_json = !matches!(e, sourcemap::Error::BadJson(_) | sourcemap::Error::Io(_));
            let _ = format!("{e} {e:?}");
            Ok(())
        }
        Ok(m) => {
            st.ok_kind = Some(match m {
                DecodedMap::Regular(_) => "regular",
                DecodedMap::Hermes(_) => "hermes",
                DecodedMap::Index(_) => "index",
            });
            let texts: Vec<&str> = vec!["", "var a=1;function a(){}", "é=function é(){}", "\"😀\";function 😀(){}", &lossy, MINIFIED];
            let mut budget = 24;
            post(m, &texts, st, 0, &mut budget)
        }
    }
}
