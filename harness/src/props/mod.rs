//! One monitor per property.
use crate::monitor::Ctx;

pub mod c11;
pub mod c19;

pub fn run(ctx: &mut Ctx) -> bool {
    match ctx.prop.clone().as_str() {
        "C11" => c11::run(ctx),
        "C19" => c19::run(ctx),
        _ => return false,
    }
    true
}
