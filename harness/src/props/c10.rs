//! C10 - adjust_mappings composes the two maps interval by interval.
//!
//! Reference: stretches [pos, min(next pos, end of line)) for the original map's tokens in
//! generated coordinates and for the adjustment map's tokens in *its original* coordinates;
//! one output token per non-empty overlap, at overlap start + (adjustment dst - adjustment src),
//! carrying the original token's payload. Where several tokens share a position the statement
//! does not say which of them owns the (single) non-empty stretch: every choice is accepted.

use serde_json::{json, Value};
use sourcemap::{RawToken, SourceMap};

use crate::monitor::{catch, panic_sig, Ctx};
use crate::rng::Rng;

type Pos = (u32, u32);

#[derive(Debug, Clone, Copy, PartialEq, Eq, PartialOrd, Ord)]
pub struct ATok {
    pub pos: Pos,     // generated position in the original map
    pub tag: u32,     // unique payload tag (stored in src_line)
    pub range: bool,
}

#[derive(Debug, Clone, Copy, PartialEq, Eq, PartialOrd, Ord)]
pub struct BTok {
    pub src: Pos, // position in the intermediate file (adjustment's original coordinates)
    pub dst: Pos, // position in the edited file
}

type Out = (u32, u32, u32, bool); // (dst_line, dst_col, tag, range)

fn groups<T: Copy>(items: &[T], key: impl Fn(&T) -> Pos) -> Vec<(Pos, Pos, Vec<T>)> {
    // (start, end, members) per distinct position, in position order
    let mut v: Vec<T> = items.to_vec();
    v.sort_by_key(|t| key(t));
    let mut out: Vec<(Pos, Pos, Vec<T>)> = vec![];
    for t in v {
        let k = key(&t);
        match out.last_mut() {
            Some(g) if g.0 == k => g.2.push(t),
            _ => out.push((k, k, vec![t])),
        }
    }
    for i in 0..out.len() {
        let start = out[i].0;
        let next = out.get(i + 1).map_or((u32::MAX, u32::MAX), |g| g.0);
        out[i].1 = std::cmp::min(next, (start.0, u32::MAX));
    }
    out
}

fn shift(p: Pos, b: &BTok) -> Pos {
    (
        (i64::from(p.0) + i64::from(b.dst.0) - i64::from(b.src.0)) as u32,
        (i64::from(p.1) + i64::from(b.dst.1) - i64::from(b.src.1)) as u32,
    )
}

/// All outputs the statement allows (one per choice of owners), or, with `relaxed`, what the
/// *known deviation* produces: additionally one token for every non-owner (empty stretch) that
/// lies strictly inside a stretch of the other side.
fn reference(a: &[ATok], b: &[BTok], relaxed: bool, cap: usize) -> Option<Vec<Vec<Out>>> {
    let ga = groups(a, |t| t.pos);
    let gb = groups(b, |t| t.src);
    let combos: usize = ga.iter().chain_sizes().chain(gb.iter().map(|g| g.2.len())).product();
    if combos > cap {
        return None;
    }
    let mut results = vec![];
    let mut choice_a = vec![0usize; ga.len()];
    let mut choice_b = vec![0usize; gb.len()];
    loop {
        let mut out: Vec<Out> = vec![];
        for (ia, (as_, ae, am)) in ga.iter().enumerate() {
            let owner_a = am[choice_a[ia]];
            for (ib, (bs, be, bm)) in gb.iter().enumerate() {
                let owner_b = bm[choice_b[ib]];
                let start = std::cmp::max(*as_, *bs);
                let end = std::cmp::min(*ae, *be);
                if start < end {
                    let p = shift(start, &owner_b);
                    out.push((p.0, p.1, owner_a.tag, owner_a.range));
                }
                if relaxed {
                    // empty original stretches [p,p) strictly inside the adjustment stretch
                    if *bs < *as_ && *as_ < *be {
                        for (k, m) in am.iter().enumerate() {
                            if k != choice_a[ia] {
                                let p = shift(*as_, &owner_b);
                                out.push((p.0, p.1, m.tag, m.range));
                            }
                        }
                    }
                    // empty adjustment stretches [q,q) strictly inside the original stretch
                    if *as_ < *bs && *bs < *ae {
                        for (k, m) in bm.iter().enumerate() {
                            if k != choice_b[ib] {
                                let p = shift(*bs, m);
                                out.push((p.0, p.1, owner_a.tag, owner_a.range));
                            }
                        }
                    }
                }
            }
        }
        out.sort();
        results.push(out);
        // next combination
        let mut done = true;
        for (i, g) in ga.iter().enumerate() {
            choice_a[i] += 1;
            if choice_a[i] < g.2.len() {
                done = false;
                break;
            }
            choice_a[i] = 0;
        }
        if done {
            for (i, g) in gb.iter().enumerate() {
                choice_b[i] += 1;
                if choice_b[i] < g.2.len() {
                    done = false;
                    break;
                }
                choice_b[i] = 0;
            }
        }
        if done {
            break;
        }
    }
    Some(results)
}

trait ChainSizes {
    fn chain_sizes(self) -> Box<dyn Iterator<Item = usize>>;
}
impl<'a, I: Iterator<Item = &'a (Pos, Pos, Vec<ATok>)> + 'a> ChainSizes for I {
    fn chain_sizes(self) -> Box<dyn Iterator<Item = usize>> {
        Box::new(self.map(|g| g.2.len()).collect::<Vec<_>>().into_iter())
    }
}

fn build_a(a: &[ATok], rng: &mut Rng) -> SourceMap {
    let mut toks: Vec<RawToken> = a
        .iter()
        .map(|t| RawToken { dst_line: t.pos.0, dst_col: t.pos.1, src_line: t.tag, src_col: t.tag * 3 + 1, src_id: t.tag % 2, name_id: if t.tag % 3 == 0 { 0 } else { !0 }, is_range: t.range })
        .collect();
    rng.shuffle(&mut toks);
    SourceMap::new(Some("a.js".into()), toks, vec!["n".into()], vec!["s0.js".into(), "s1.js".into()], Some(vec![Some("c0".into()), None]))
}

fn build_b(b: &[BTok], rng: &mut Rng) -> SourceMap {
    let mut toks: Vec<RawToken> = b
        .iter()
        .map(|t| RawToken { dst_line: t.dst.0, dst_col: t.dst.1, src_line: t.src.0, src_col: t.src.1, src_id: 0, name_id: !0, is_range: false })
        .collect();
    rng.shuffle(&mut toks);
    // SourceMap::new sorts by generated position: "adjustment tokens given in any order" is
    // about their order in original coordinates, which this leaves arbitrary
    SourceMap::new(None, toks, vec![], vec!["intermediate.js".into()], None)
}

fn case_json(a: &[ATok], b: &[BTok]) -> Value {
    json!({
        "original_tokens(generated pos, tag, range)": a.iter().map(|t| json!([t.pos.0, t.pos.1, t.tag, t.range])).collect::<Vec<_>>(),
        "adjustment_tokens(src pos -> dst pos)": b.iter().map(|t| json!([[t.src.0, t.src.1], [t.dst.0, t.dst.1]])).collect::<Vec<_>>(),
    })
}

fn buckets(ctx: &mut Ctx, a: &[ATok], b: &[BTok]) -> bool {
    let ga = groups(a, |t| t.pos);
    let gb = groups(b, |t| t.src);
    let mut any = false;
    for (as_, ae, am) in &ga {
        let mut n_overlaps = 0;
        for (bs, be, bm) in &gb {
            let start = std::cmp::max(*as_, *bs);
            let end = std::cmp::min(*ae, *be);
            if start < end {
                any = true;
                n_overlaps += 1;
                ctx.bucket_if(bs > as_ && be < ae, "adjustment-stretch-inside-original(split)");
                ctx.bucket_if(bs <= as_ && be >= ae, "original-stretch-swallowed");
                ctx.bucket_if(as_ == bs, "tie-at-stretch-start");
                ctx.bucket_if(bm[0].dst.1 < bm[0].src.1, "negative-column-displacement");
                ctx.bucket_if(bm[0].dst.0 != bm[0].src.0, "line-displacement");
            }
            ctx.bucket_if(bm.len() > 1, "duplicate-position:adjustment-side");
        }
        ctx.bucket_if(n_overlaps >= 2, "original-stretch-split-over-several-adjustments");
        ctx.bucket_if(n_overlaps == 0, "original-stretch-without-overlap(disjoint)");
        ctx.bucket_if(am.len() > 1, "duplicate-position:original-side");
    }
    ctx.bucket_if(a.is_empty(), "empty-original-map");
    ctx.bucket_if(b.is_empty(), "empty-adjustment-map");
    any
}

fn one(ctx: &mut Ctx, stream: &str, n: u64, a: &[ATok], b: &[BTok], rng: &mut Rng) {
    ctx.eval();
    let nontrivial = buckets(ctx, a, b);
    if nontrivial {
        if stream == "grid-exhaustive" {
            ctx.nontrivial_enumerated(1);
        } else {
            ctx.nontrivial(crate::monitor::hash_value(&case_json(a, b)));
        }
    }
    let strict = match reference(a, b, false, 64) {
        Some(s) => s,
        None => {
            ctx.bucket("skipped:too-many-owner-combinations");
            return;
        }
    };
    ctx.op("adjust_mappings");
    let r = catch(|| {
        let mut sa = build_a(a, rng);
        let sb = build_b(b, rng);
        let before = (sa.sources().map(str::to_string).collect::<Vec<_>>(), sa.names().map(str::to_string).collect::<Vec<_>>(), sa.source_contents().map(|c| c.map(str::to_string)).collect::<Vec<_>>());
        sa.adjust_mappings(&sb);
        let after = (sa.sources().map(str::to_string).collect::<Vec<_>>(), sa.names().map(str::to_string).collect::<Vec<_>>(), sa.source_contents().map(|c| c.map(str::to_string)).collect::<Vec<_>>());
        let toks: Vec<RawToken> = sa.tokens().map(|t| t.get_raw_token()).collect();
        (toks, before == after)
    });
    let (toks, meta_ok) = match r {
        Ok(x) => x,
        Err(p) => return ctx.violation(&panic_sig(&p), stream, n, format!("adjust_mappings panicked: {p}"), case_json(a, b)),
    };
    if !meta_ok {
        return ctx.violation("sources-names-or-contents-changed", stream, n, "adjust_mappings changed sources, names or contents".into(), case_json(a, b));
    }
    if toks.windows(2).any(|w| (w[0].dst_line, w[0].dst_col) > (w[1].dst_line, w[1].dst_col)) {
        return ctx.violation("result-not-ordered", stream, n, "result of adjust_mappings is not ordered by generated position".into(), case_json(a, b));
    }
    // payload integrity: every output token carries the complete payload of the original token with its tag
    for t in &toks {
        let ok = a.iter().any(|o| o.tag == t.src_line && t.src_col == o.tag * 3 + 1 && t.src_id == o.tag % 2 && t.name_id == if o.tag % 3 == 0 { 0 } else { !0 } && t.is_range == o.range);
        if !ok {
            return ctx.violation("payload-changed", stream, n, format!("output token {t:?} does not carry the payload of any original token"), case_json(a, b));
        }
    }
    let mut got: Vec<Out> = toks.iter().map(|t| (t.dst_line, t.dst_col, t.src_line, t.is_range)).collect();
    got.sort();
    if strict.iter().any(|s| *s == got) {
        return;
    }
    let relaxed = reference(a, b, true, 64).unwrap();
    let extra = got.len() as i64 - strict[0].len() as i64;
    let data = json!({"case": case_json(a, b), "got(dst_line,dst_col,tag,range)": got, "reference(one admissible choice)": strict[0]});
    if relaxed.iter().any(|s| *s == got) {
        ctx.violation(
            "extra-token-for-empty-stretch",
            stream,
            n,
            format!("result has {extra} token(s) more than one per non-empty overlap: a token that shares its position with another one (empty stretch) and lies strictly inside a stretch of the other map still produced an output token"),
            data,
        );
    } else {
        ctx.violation("composition-differs", stream, n, format!("result differs from the interval composition ({} tokens, reference {}), and not in the known way", got.len(), strict[0].len()), data);
    }
}

pub fn run(ctx: &mut Ctx) {
    // oracle self-test on the example of the crate's own documentation comment
    {
        let a = [ATok { pos: (8, 28), tag: 1, range: false }, ATok { pos: (8, 40), tag: 2, range: false }, ATok { pos: (9, 10), tag: 3, range: false }];
        let b = [BTok { src: (8, 30), dst: (17, 23) }];
        let r = reference(&a, &b, false, 64).unwrap();
        assert_eq!(r, vec![vec![(17, 23, 1, false), (17, 33, 2, false)]], "doc example, one-line adjustment stretch");
    }

    // ---- exhaustive grid: 2 lines x 4 columns
    let cells: Vec<Pos> = (0..2).flat_map(|l| (0..4).map(move |c| (l, c))).collect();
    let multiset = !ctx.quick();
    let mut a_sets: Vec<Vec<Pos>> = vec![vec![]];
    for i in 0..cells.len() {
        a_sets.push(vec![cells[i]]);
        for j in (if multiset { i } else { i + 1 })..cells.len() {
            a_sets.push(vec![cells[i], cells[j]]);
            for k in (if multiset { j } else { j + 1 })..cells.len() {
                a_sets.push(vec![cells[i], cells[j], cells[k]]);
            }
        }
    }
    let b_toks: Vec<BTok> = cells.iter().flat_map(|s| cells.iter().map(move |d| BTok { src: *s, dst: *d })).collect();
    let mut b_sets: Vec<Vec<BTok>> = vec![vec![]];
    for i in 0..b_toks.len() {
        b_sets.push(vec![b_toks[i]]);
        for j in i + 1..b_toks.len() {
            b_sets.push(vec![b_toks[i], b_toks[j]]);
        }
    }
    let (na, nb) = (a_sets.len() as u64, b_sets.len() as u64);
    let total = if ctx.mode == "fast" || ctx.scale_pct < 100 { na * nb * ctx.scale_pct / 100 } else { na * nb };
    for n in ctx.cases("grid-exhaustive", total) {
        let mut rng = ctx.begin("grid-exhaustive", n);
        let a: Vec<ATok> = a_sets[(n / nb) as usize].iter().enumerate().map(|(i, p)| ATok { pos: *p, tag: i as u32 + 1, range: i % 2 == 1 }).collect();
        let b = &b_sets[(n % nb) as usize];
        one(ctx, "grid-exhaustive", n, &a, b, &mut rng);
        if n % 50_000 == 7 {
            ctx.sample(|| case_json(&a, b));
        }
    }
    if ctx.scale_pct == 100 {
        ctx.exhaustive(&format!(
            "every {} of <= 3 original tokens over a 2x4 grid ({na}) x every set of <= 2 adjustment tokens with source and destination anywhere on the grid ({nb}) = {} pairs",
            if multiset { "multiset" } else { "subset" },
            na * nb
        ));
    }

    // ---- random medium grids
    let total = ctx.size(1_500_000, 8_000_000);
    for n in ctx.cases("random", total) {
        let mut rng = ctx.begin("random", n);
        let lines = rng.range(1, 6) as u32;
        let cols = *rng.pick(&[6u32, 15, 30]);
        let ma = *rng.pick(&[3usize, 10, 25]);
        let na = rng.range_usize(0, ma);
        let mb = *rng.pick(&[2usize, 8, 25]);
        let nb = rng.range_usize(0, mb);
        let dup = *rng.pick(&[0u64, 10, 30]);
        let mut a: Vec<ATok> = vec![];
        for i in 0..na {
            let pos = match a.last() {
                Some(p) if rng.chance(dup, 100) => p.pos,
                _ => (rng.below(u64::from(lines)) as u32, rng.below(u64::from(cols)) as u32),
            };
            a.push(ATok { pos, tag: i as u32 + 1, range: rng.chance(1, 4) });
        }
        let mut b: Vec<BTok> = vec![];
        for _ in 0..nb {
            let src = match b.last() {
                Some(p) if rng.chance(dup, 100) => p.src,
                _ => (rng.below(u64::from(lines)) as u32, rng.below(u64::from(cols)) as u32),
            };
            let dst = if rng.chance(1, 3) { (src.0, rng.below(u64::from(cols) * 2) as u32) } else { (rng.below(u64::from(lines) + 3) as u32, rng.below(u64::from(cols) * 2) as u32) };
            b.push(BTok { src, dst });
        }
        one(ctx, "random", n, &a, &b, &mut rng);
        ctx.sample(|| case_json(&a, &b));
    }
}
