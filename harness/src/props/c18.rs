//! C18 - maps can be found from generated files and embedded as data URLs.

use serde_json::json;
use sourcemap::{decode_data_url, is_sourcemap_slice, locate_sourcemap_reference, locate_sourcemap_reference_slice, DecodedMap, SourceMapRef};

use super::c12::Chunked;
use crate::model::SecMap;
use crate::monitor::{catch, hash_value, panic_sig, Ctx};
use crate::observe::{compare, observe, Cmp};
use crate::rng::Rng;

#[derive(Debug, Clone, PartialEq, Eq)]
enum Found {
    Nothing,
    Ref(String),
    Legacy(String),
}

/// Reference: first '\n'-separated line (one trailing '\r' removed) that begins with one of
/// the two markers; URL = the rest, trimmed.
fn reference_locate(text: &str) -> Found {
    for line in text.split('\n') {
        let line = line.strip_suffix('\r').unwrap_or(line);
        if let Some(rest) = line.strip_prefix("//# sourceMappingURL=") {
            return Found::Ref(rest.trim().to_string());
        }
        if let Some(rest) = line.strip_prefix("//@ sourceMappingURL=") {
            return Found::Legacy(rest.trim().to_string());
        }
    }
    Found::Nothing
}

fn conv(r: Result<Option<SourceMapRef>, sourcemap::Error>) -> Result<Found, String> {
    match r {
        Ok(None) => Ok(Found::Nothing),
        Ok(Some(SourceMapRef::Ref(u))) => Ok(Found::Ref(u)),
        Ok(Some(SourceMapRef::LegacyRef(u))) => Ok(Found::Legacy(u)),
        Err(e) => Err(e.to_string()),
    }
}

const CODE: &[&str] = &["var a=1;", "function f(){}", "", "  ", "/* comment */", "// plain comment", "x=\"//# sourceMappingURL=in-string\";", "é=😀;", "\t"];
const URLS: &[&str] = &["a.js.map", "http://h/x.map", "", "x y.map", "é.map", "data:application/json;base64,e30=", "//# sourceMappingURL=nested", "a.map?x=1#frag"];

fn gen_text(rng: &mut Rng, ctx: &mut Ctx) -> String {
    let n = rng.range_usize(0, 7);
    let mut lines: Vec<String> = vec![];
    for _ in 0..n {
        let url = rng.pick_str(URLS);
        let pad_l = rng.pick_str(&["", " ", "\t ", "  "]);
        let pad_r = rng.pick_str(&["", " ", "\t", "  "]);
        let l = match rng.below(16) {
            0 | 1 => {
                ctx.bucket("line:standard-comment");
                format!("//# sourceMappingURL={pad_l}{url}{pad_r}")
            }
            2 => {
                ctx.bucket("line:legacy-comment");
                format!("//@ sourceMappingURL={pad_l}{url}{pad_r}")
            }
            3 => {
                ctx.bucket("lookalike:indented");
                format!(" //# sourceMappingURL={url}")
            }
            4 => {
                ctx.bucket("lookalike:mid-line");
                format!("var x=1; //# sourceMappingURL={url}")
            }
            5 => {
                ctx.bucket("lookalike:missing-equals");
                format!("//# sourceMappingURL {url}")
            }
            6 => {
                ctx.bucket("lookalike:missing-space");
                format!("//#sourceMappingURL={url}")
            }
            7 => {
                ctx.bucket("lookalike:block-comment");
                format!("/*# sourceMappingURL={url} */")
            }
            8 => {
                ctx.bucket("lookalike:wrong-case");
                format!("//# sourcemappingurl={url}")
            }
            9 => {
                ctx.bucket("lookalike:sourceURL");
                format!("//# sourceURL={url}")
            }
            10 | 11 => {
                // code lines of every length around the marker's length (21 bytes)
                let k = rng.range_usize(0, 44);
                ctx.bucket_if((19..=22).contains(&k), "code-line-about-as-long-as-the-marker");
                "x;".repeat(k / 2) + if k % 2 == 1 { "y" } else { "" }
            }
            _ => rng.pick_str(CODE).to_string(),
        };
        lines.push(l);
    }
    let mut text = String::new();
    for (i, l) in lines.iter().enumerate() {
        text.push_str(l);
        if i + 1 < lines.len() || rng.bool() {
            text.push_str(rng.pick_str(&["\n", "\n", "\r\n", "\r\n", "\r"]));
        }
    }
    text
}

pub fn run(ctx: &mut Ctx) {
    assert_eq!(reference_locate("a\n//# sourceMappingURL= x \r\n//@ sourceMappingURL=y"), Found::Ref("x".into()));
    assert_eq!(reference_locate(" //# sourceMappingURL=x"), Found::Nothing);
    assert_eq!(reference_locate("//@ sourceMappingURL=y"), Found::Legacy("y".into()));

    let miri = ctx.mode == "miri";
    // ---- (a) reference discovery
    let total = if miri { 200 } else { ctx.size(3_000_000, 20_000_000) };
    for n in ctx.cases("texts", total) {
        let mut rng = ctx.begin("texts", n);
        ctx.eval();
        let text = gen_text(&mut rng, ctx);
        let want = reference_locate(&text);
        let candidates = text.matches("sourceMappingURL").count();
        if candidates >= 1 {
            ctx.nontrivial_bytes(text.as_bytes());
        }
        ctx.bucket_if(candidates >= 2 && want != Found::Nothing, "first-of-several-candidates");
        ctx.bucket(match &want {
            Found::Nothing => "found:nothing",
            Found::Ref(u) if u.is_empty() => "found:empty-url",
            Found::Ref(_) => "found:standard",
            Found::Legacy(_) => "found:legacy",
        });
        ctx.sample(|| json!({"text": text, "reference": format!("{want:?}")}));
        let sched: Vec<usize> = (0..rng.range_usize(1, 6)).map(|_| rng.range_usize(1, 40)).collect();
        ctx.op("locate_sourcemap_reference_slice");
        ctx.op("locate_sourcemap_reference(reader)");
        let r = catch(|| {
            let via_view = conv(sourcemap::SourceView::new(text.as_str().into()).sourcemap_reference());
            let slice = conv(locate_sourcemap_reference_slice(text.as_bytes()));
            // the SourceView accessor is documented as the same discovery: fold a disagreement into the slice result
            let slice = if via_view == slice { slice } else { Err(format!("SourceView::sourcemap_reference gives {via_view:?}, locate_sourcemap_reference_slice gives {slice:?}")) };
            (slice, conv(locate_sourcemap_reference(Chunked::new(text.as_bytes(), &sched))))
        });
        let data = || json!({"text": text, "chunks": sched});
        match r {
            Err(p) => ctx.violation(&panic_sig(&p), "texts", n, format!("locate panicked: {p}"), data()),
            Ok((s, rd)) => {
                for (which, got) in [("slice", s), ("reader", rd)] {
                    match got {
                        Err(e) => ctx.violation("locate-error", "texts", n, format!("locate_sourcemap_reference ({which}) failed on valid UTF-8 text: {e}"), data()),
                        Ok(g) => {
                            if g != want {
                                let sig = match (&g, &want) {
                                    (Found::Nothing, _) => "reference-missed",
                                    (_, Found::Nothing) => "lookalike-accepted",
                                    (Found::Ref(_), Found::Legacy(_)) | (Found::Legacy(_), Found::Ref(_)) => "legacy-flag",
                                    _ => "wrong-url-or-not-first",
                                };
                                ctx.violation(sig, "texts", n, format!("locate_sourcemap_reference ({which}) = {g:?}, expected {want:?}"), data());
                            }
                        }
                    }
                }
            }
        }
    }

    // ---- (b) + (c): own data URLs, embedded in a comment, and detection of every serialised map
    let total = if miri { 48 } else { ctx.size(300_000, 3_000_000) };
    for n in ctx.cases("maps", total) {
        let mut rng = ctx.begin("maps", n);
        ctx.eval();
        let (model, real, how) = match catch(|| super::c01::gen_case(&mut rng)) {
            Ok(x) => x,
            Err(p) => {
                ctx.violation(&panic_sig(&p), "maps", n, format!("building panicked: {p}"), json!({}));
                continue;
            }
        };
        ctx.nontrivial(hash_value(&model.json()));
        if n < 20 {
            ctx.sample(|| json!({"construction": how, "model": model.json()}));
        }
        // (c) detection
        ctx.op("is_sourcemap_slice");
        match catch(|| super::c01::ser(&real).map(|b| (is_sourcemap_slice(&b), b))) {
            Err(p) => ctx.violation(&panic_sig(&p), "maps", n, format!("serialise/detect panicked: {p}"), model.json()),
            Ok(Err(e)) => ctx.violation("serialise-error", "maps", n, e, model.json()),
            Ok(Ok((is, bytes))) => {
                ctx.bucket(&format!("detected:{}", observe(&real).kind()));
                if !is {
                    ctx.violation("serialised-map-not-detected", "maps", n, format!("is_sourcemap_slice is false for a serialised {} map", observe(&real).kind()), json!({"bytes": String::from_utf8_lossy(&bytes)}));
                }
            }
        }
        // (b) data URL round trip (the library produces data URLs for regular maps)
        let sm = match (&real, &model) {
            (DecodedMap::Regular(sm), SecMap::Regular(_)) => sm,
            _ => continue,
        };
        ctx.op("to_data_url");
        ctx.op("decode_data_url");
        let r = catch(|| -> Result<(), (String, String)> {
            let url = sm.to_data_url().map_err(|e| ("to_data_url-error".to_string(), e.to_string()))?;
            if !url.starts_with("data:application/json") {
                return Err(("data-url-media-type".into(), format!("data URL starts with {:?}", &url[..url.len().min(40)])));
            }
            let back = decode_data_url(&url).map_err(|e| ("own-data-url-rejected".to_string(), format!("decode_data_url(to_data_url(m)) failed: {e}; url starts {:?}", &url[..url.len().min(60)])))?;
            let want = observe(&real);
            match compare(&want, &observe(&back), false) {
                Cmp::Different(d) => return Err(("data-url-roundtrip-differs".into(), d)),
                _ => {}
            }
            // embedded in a generated file and discovered from there
            let file = format!("{}\n{}//# sourceMappingURL={}{}", rng.pick_str(CODE), rng.pick_str(&["", "var b=2;\r\n", "//# sourceURL=x\n"]), url, rng.pick_str(&["", "\n", "\r\n", " \n"]));
            let found = locate_sourcemap_reference_slice(file.as_bytes()).map_err(|e| ("locate-error".to_string(), e.to_string()))?;
            let r = match found {
                Some(r @ SourceMapRef::Ref(_)) => r,
                other => return Err(("embedded-url-not-discovered".into(), format!("locate returned {other:?}"))),
            };
            if r.get_url() != url {
                return Err(("embedded-url-altered".into(), "discovered URL differs from the embedded one".into()));
            }
            match r.get_embedded_sourcemap() {
                Ok(Some(m)) => match compare(&want, &observe(&m), false) {
                    Cmp::Different(d) => Err(("embedded-map-differs".into(), d)),
                    _ => Ok(()),
                },
                Ok(None) => Err(("embedded-map-missing".into(), "get_embedded_sourcemap returned None for a data URL".into())),
                Err(e) => Err(("embedded-map-error".into(), e.to_string())),
            }
        });
        match r {
            Err(p) => ctx.violation(&panic_sig(&p), "maps", n, format!("data URL round trip panicked: {p}"), model.json()),
            Ok(Err((sig, d))) => ctx.violation(&sig, "maps", n, d, model.json()),
            Ok(Ok(())) => ctx.bucket("data-url-roundtrip+embedded-discovery"),
        }
    }
    let _ = Rng::new(0);
}
