//! C17 - function-name resolution finds the original name of the enclosing function.

use serde_json::{json, Value};
use sourcemap::{DecodedMap, RawToken, SourceMap, SourceMapIndex, SourceMapSection, SourceView};

use super::c15::ref_lines;
use crate::monitor::{catch, panic_sig, Ctx};
use crate::rng::Rng;

pub const NAMES: &[&str] = &["a", "ab", "abc", "$", "_x", "é", "πr", "变", "a\u{200d}", "𝒳", "f1", "function"];
const NON_IDENTIFIERS: &[&str] = &["a.b", "1a", "", "a b", "a-b", "(", "é(", " a", "a "];

/// Identifier tables over the closed character pool the generator uses (independent of the
/// unicode-id-start crate).
fn is_start(c: char) -> bool {
    c.is_ascii_alphabetic() || matches!(c, '$' | '_' | 'é' | 'π' | '变' | '𝒳' | '日' | '本')
}
fn is_continue(c: char) -> bool {
    is_start(c) || c.is_ascii_digit() || c == '\u{200c}' || c == '\u{200d}'
}
fn is_ws(c: char) -> bool {
    c == ' ' || c == '\t'
}

fn ref_is_identifier(s: &str) -> bool {
    let mut it = s.chars();
    match it.next() {
        Some(c) if is_start(c) => it.all(is_continue),
        _ => false,
    }
}

/// Text of a token: identifier prefix of the first whitespace-delimited word at the UTF-16 column.
fn ref_token_text(lines: &[&str], line: u32, col: u32) -> Option<String> {
    let l = lines.get(line as usize)?;
    let mut units = 0u32;
    let mut off = l.len();
    for (i, ch) in l.char_indices() {
        if units >= col {
            off = i;
            break;
        }
        units += ch.len_utf16() as u32;
    }
    if off >= l.len() {
        return None;
    }
    let rest = &l[off..];
    let word: String = rest.chars().skip_while(|c| is_ws(*c)).take_while(|c| !is_ws(*c)).collect();
    let mut it = word.chars();
    let first = it.next()?;
    if !is_start(first) {
        return None;
    }
    let mut out = String::new();
    out.push(first);
    for c in it {
        if is_continue(c) {
            out.push(c);
        } else {
            break;
        }
    }
    Some(out)
}

#[derive(Debug, Clone, PartialEq)]
enum Expect {
    Must(Option<String>),
    Unasserted,
}

#[derive(Debug, Clone)]
pub struct Tok {
    l: u32,
    c: u32,
    name: Option<String>,
}

/// Reference resolution from token index `start` (tokens sorted by position, unique positions).
fn ref_resolve(lines: &[&str], toks: &[Tok], start: usize, name: &str) -> Expect {
    if !ref_is_identifier(name) {
        return Expect::Must(None);
    }
    let mut k = 0usize;
    let mut i = start as i64;
    while i >= 1 {
        // pair (k, k+1): token i is `name`, token i-1 is `function`
        if k + 1 > 135 {
            return Expect::Must(None);
        }
        let t = &toks[i as usize];
        let p = &toks[i as usize - 1];
        if ref_token_text(lines, t.l, t.c).as_deref() == Some(name) && ref_token_text(lines, p.l, p.c).as_deref() == Some("function") {
            return if k + 1 <= 119 { Expect::Must(t.name.clone()) } else { Expect::Unasserted };
        }
        k += 1;
        i -= 1;
    }
    Expect::Must(None)
}

pub struct Prog {
    pub text: String,
    pub toks: Vec<Tok>,
}

fn units(s: &str) -> u32 {
    s.chars().map(|c| c.len_utf16() as u32).sum()
}

pub fn gen_prog(rng: &mut Rng, long: bool) -> Prog {
    gen_prog_with(rng, long, true)
}

/// `astral = false`: no characters outside the BMP (every character is one UTF-16 unit).
pub fn gen_prog_with(rng: &mut Rng, long: bool, astral: bool) -> Prog {
    let names: Vec<&str> = NAMES.iter().copied().filter(|n| astral || n.chars().all(|c| c.len_utf16() == 1)).collect();
    let names = names.as_slice();
    let n_lines = if long { 1 } else { rng.range_usize(1, 4) };
    let mut lines: Vec<String> = vec![];
    let mut toks: Vec<Tok> = vec![];
    let mut orig = 0;
    let mark = |toks: &mut Vec<Tok>, rng: &mut Rng, l: usize, c: u32, named: u64, orig: &mut u32| {
        if rng.chance(5, 6) {
            let name = if rng.chance(named, 100) {
                *orig += 1;
                Some(format!("original_{}", *orig))
            } else {
                None
            };
            toks.push(Tok { l: l as u32, c, name });
        }
    };
    for li in 0..n_lines {
        let mut s = String::new();
        let n_pieces = if long { 1 } else { rng.range_usize(0, 5) };
        for _ in 0..n_pieces {
            match if long { 1 } else { rng.below(7) } {
                0 => {
                    // string literal with non-ASCII / astral characters before whatever follows
                    mark(&mut toks, rng, li, units(&s), 10, &mut orig);
                    s.push('"');
                    for _ in 0..rng.range_usize(0, 4) {
                        s.push_str(if astral { rng.pick_str(&["é", "😀", "x", "日本", " ", "𝒳", "function"]) } else { rng.pick_str(&["é", "x", "日本", " ", "function"]) });
                    }
                    s.push_str("\";");
                }
                1 | 2 | 3 => {
                    let name = *rng.pick(names);
                    mark(&mut toks, rng, li, units(&s), 20, &mut orig);
                    s.push_str("function");
                    s.push_str(rng.pick_str(&[" ", "  ", "\t", " \t "]));
                    if rng.chance(1, 10) {
                        // a token in the whitespace just before the name
                        let c = units(&s) - 1;
                        toks.push(Tok { l: li as u32, c, name: Some("ws_tok".into()) });
                    }
                    mark(&mut toks, rng, li, units(&s), 85, &mut orig);
                    s.push_str(name);
                    s.push_str(rng.pick_str(&["(", " (", "(a,b", "(é"]));
                    mark(&mut toks, rng, li, units(&s), 10, &mut orig);
                    s.push_str("){");
                    let fillers = if long { rng.range_usize(90, 175) } else { rng.range_usize(0, 3) };
                    for k in 0..fillers {
                        mark(&mut toks, rng, li, units(&s), 30, &mut orig);
                        if long {
                            // make sure every filler has a token so that distances are controlled
                            if toks.last().map_or(true, |t| t.c != units(&s)) {
                                toks.push(Tok { l: li as u32, c: units(&s), name: None });
                            }
                        }
                        s.push_str(&format!("v{};", k % 7));
                    }
                    if long {
                        // the call site at the end
                        toks.push(Tok { l: li as u32, c: units(&s), name: Some("call_site".into()) });
                        s.push_str(name);
                        s.push_str("()");
                    }
                    s.push('}');
                }
                4 => {
                    let name = *rng.pick(names);
                    mark(&mut toks, rng, li, units(&s), 40, &mut orig);
                    s.push_str(name);
                    s.push_str("(1);");
                }
                5 => {
                    mark(&mut toks, rng, li, units(&s), 10, &mut orig);
                    s.push_str("var ");
                    mark(&mut toks, rng, li, units(&s), 60, &mut orig);
                    s.push_str(rng.pick_str(names));
                    s.push_str("=1;");
                }
                _ => s.push_str(rng.pick_str(&[" ", "  ", ";", "{}", "\t"])),
            }
        }
        lines.push(s);
    }
    // tokens pointing past the end of a line / onto a missing line
    if !long {
        for _ in 0..rng.range_usize(0, 2) {
            let l = rng.below(n_lines as u64 + 2) as u32;
            let u = lines.get(l as usize).map_or(0, |x| units(x));
            toks.push(Tok { l, c: u + rng.below(4) as u32, name: Some("past_end".into()) });
        }
    }
    toks.sort_by_key(|t| (t.l, t.c));
    toks.dedup_by_key(|t| (t.l, t.c));
    let sep = if rng.chance(1, 4) { "\r\n" } else { "\n" };
    Prog { text: lines.join(sep), toks }
}

fn build_map(p: &Prog) -> SourceMap {
    let mut names: Vec<String> = vec![];
    let raw: Vec<RawToken> = p
        .toks
        .iter()
        .enumerate()
        .map(|(i, t)| {
            let name_id = match &t.name {
                Some(n) => {
                    names.push(n.clone());
                    (names.len() - 1) as u32
                }
                None => !0,
            };
            // every fifth token is a range mapping: the range flag shifts reported *original* columns
            // inside the range, it must not influence which minified text a token stands for
            RawToken { dst_line: t.l, dst_col: t.c, src_line: i as u32, src_col: 0, src_id: 0, name_id, is_range: (i * 7 + p.toks.len()) % 5 == 0 }
        })
        .collect();
    SourceMap::new(None, raw, names.iter().map(|s| s.as_str().into()).collect(), vec!["orig.js".into()], None)
}

fn prog_json(p: &Prog) -> Value {
    json!({"minified": p.text, "tokens(line,col,original name)": p.toks.iter().map(|t| json!([t.l, t.c, t.name])).collect::<Vec<_>>()})
}

pub fn run(ctx: &mut Ctx) {
    // reference self-test
    assert!(ref_is_identifier("foo_$123") && !ref_is_identifier(" foo") && !ref_is_identifier("foo.bar") && ref_is_identifier("a\u{200d}") && ref_is_identifier("é"));
    assert_eq!(ref_token_text(&["foo bar"], 0, 0).as_deref(), Some("foo"));
    assert_eq!(ref_token_text(&["f _hi"], 0, 1).as_deref(), Some("_hi"));
    assert_eq!(ref_token_text(&["foo.bar"], 0, 0).as_deref(), Some("foo"));
    assert_eq!(ref_token_text(&["[foo,bar]"], 0, 0), None);
    assert_eq!(ref_token_text(&["\"😀\";function é(){}"], 0, 14).as_deref(), Some("é"));
    assert_eq!(ref_token_text(&["ab"], 0, 2), None);
    // every non-ASCII character the generators can emit must be classified (a token may point anywhere)
    assert_eq!(ref_token_text(&["\"éfunction日本\";"], 0, 2).as_deref(), Some("function日本"));
    assert_eq!(ref_token_text(&["日本x"], 0, 0).as_deref(), Some("日本x"));
    assert_eq!(ref_token_text(&["😀a"], 0, 0), None);

    let miri = ctx.mode == "miri";
    let total = if miri { 32 } else { ctx.size(40_000, 1_500_000) };
    for n in ctx.cases("programs", total) {
        let mut rng = ctx.begin("programs", n);
        ctx.eval();
        let long = !miri && rng.chance(1, 25);
        let p = gen_prog(&mut rng, long);
        let lines = ref_lines(&p.text);
        let n_funcs = p.text.matches("function").count();
        if n_funcs >= 2 {
            ctx.nontrivial_bytes(format!("{}|{:?}", p.text, p.toks.iter().map(|t| (t.l, t.c)).collect::<Vec<_>>()).as_bytes());
        }
        ctx.sample(|| prog_json(&p));
        ctx.bucket_if(long, "long-program(walk limit)");
        ctx.bucket_if(lines.len() > 1, "multi-line-program");
        ctx.bucket_if(!p.toks.is_empty(), "map-with-range-tokens");
        let sm = build_map(&p);
        let sv = SourceView::new(p.text.as_str().into());
        // an index map with the same map as its only section at (0,0)
        let idx = SourceMapIndex::new(None, vec![SourceMapSection::new((0, 0), None, Some(DecodedMap::Regular(sm.clone())))]);
        let mut queries: Vec<(u32, u32)> = vec![];
        let step = if long { 25 } else { 1 };
        for t in p.toks.iter().rev().step_by(step) {
            queries.push((t.l, t.c));
            queries.push((t.l, t.c + 1));
        }
        queries.push((0, 0));
        queries.push((lines.len() as u32 + 3, 5));
        queries.truncate(if miri { 3 } else { 60 });
        for (ql, qc) in queries {
            // token the lookup lands on: greatest position <= query (positions are unique)
            let start = p.toks.iter().rposition(|t| (t.l, t.c) <= (ql, qc));
            let cands: Vec<&str> = if long { vec![NAMES[rng.usize_below(NAMES.len())], "f1", "a"] } else { if miri { vec![NAMES[rng.usize_below(NAMES.len())], "é", "a.b"] } else { NAMES.iter().chain(NON_IDENTIFIERS.iter()).copied().collect() } };
            for name in cands {
                let want = match start {
                    None => Expect::Must(None),
                    Some(s) => ref_resolve(&lines, &p.toks, s, name),
                };
                ctx.op("get_original_function_name");
                let got = catch(|| {
                    (
                        sm.get_original_function_name(ql, qc, name, &sv).map(str::to_string),
                        idx.get_original_function_name(ql, qc, name, &sv).map(str::to_string),
                        DecodedMap::Regular(sm.clone()).get_original_function_name(ql, qc, Some(name), Some(&sv)).map(str::to_string),
                    )
                });
                let data = || json!({"program": prog_json(&p), "query": [ql, qc], "minified_name": name});
                match got {
                    Err(pn) => {
                        ctx.violation(&panic_sig(&pn), "programs", n, format!("get_original_function_name({ql},{qc},{name:?}) panicked: {pn}"), data());
                        break;
                    }
                    Ok((g, gi, gd)) => {
                        if g != gi || g != gd {
                            ctx.violation("map-vs-single-section-index", "programs", n, format!("SourceMap gives {g:?}, the same map as the only section (0,0) of an index gives {gi:?}, DecodedMap gives {gd:?}"), data());
                        }
                        match &want {
                            Expect::Unasserted => ctx.bucket("walk-limit-band(unasserted)"),
                            Expect::Must(w) => {
                                if g != *w {
                                    let sig = if !ref_is_identifier(name) {
                                        "non-identifier-accepted"
                                    } else if w.is_some() && g.is_none() {
                                        "name-not-found"
                                    } else if w.is_none() && g.is_some() {
                                        "name-found-without-function-pair"
                                    } else {
                                        "wrong-name"
                                    };
                                    ctx.violation(sig, "programs", n, format!("get_original_function_name({ql},{qc},{name:?}) = {g:?}, reference walk gives {w:?}"), data());
                                } else {
                                    if let Some(s) = start {
                                        if w.is_some() {
                                            ctx.bucket("resolved-to-a-name");
                                            let t = &p.toks[s];
                                            let line = lines.get(t.l as usize).copied().unwrap_or("");
                                            ctx.bucket_if(!line.is_ascii(), "resolved-on-line-with-non-ascii");
                                            ctx.bucket_if(!name.is_ascii(), "non-ascii-identifier-resolved");
                                        }
                                    }
                                    ctx.bucket_if(!ref_is_identifier(name), "non-identifier-candidate->None");
                                }
                            }
                        }
                    }
                }
            }
        }
        // token past end of line / on a missing line exist in the map
        ctx.bucket_if(p.toks.iter().any(|t| lines.get(t.l as usize).map_or(true, |l| t.c >= units(l))), "token-past-end-of-line-or-on-missing-line");
        if long {
            // distance between the declaration and the call site
            let decl = p.toks.iter().position(|t| ref_token_text(&lines, t.l, t.c).as_deref() == Some("function"));
            if let Some(d) = decl {
                let dist = p.toks.len() - 1 - d;
                ctx.bucket(if dist <= 118 { "walk:pair-within-limit" } else if dist >= 136 { "walk:pair-beyond-limit" } else { "walk:pair-in-unasserted-band" });
            }
        }
    }
    if miri {
        return;
    }

    // ---- index maps with sections at non-zero offsets.
    // Reference: the same walk, inside the section the position falls into, reading the minified
    // text at the tokens' positions in the *file* (section offset applied). A second reference
    // reproduces the one known deviation (tokens' section-relative positions applied to the
    // whole file) so that exactly that deviation, and nothing else, is recognised as known.
    let total = ctx.size(10_000, 400_000);
    for n in ctx.cases("index-sections", total) {
        let mut rng = ctx.begin("index-sections", n);
        ctx.eval();
        let n_sec = rng.range_usize(1, 3);
        let mut progs = vec![];
        let mut text = String::new();
        let mut sections = vec![];
        let mut line0 = 0u32;
        for k in 0..n_sec {
            // no astral characters here: section-relative columns applied to other lines of the file must
            // not land inside a surrogate pair (the statement is silent about such columns)
            let mut p = gen_prog_with(&mut rng, false, false);
            let nl = ref_lines(&p.text).len() as u32;
            p.toks.retain(|t| t.l < nl); // a section's tokens stay inside the section
            // each section starts on its own line (offset column 0) below the previous one
            if k > 0 {
                text.push('\n');
            }
            text.push_str(&p.text);
            sections.push(SourceMapSection::new((line0, 0), None, Some(DecodedMap::Regular(build_map(&p)))));
            progs.push((line0, p));
            line0 += nl;
        }
        let idx = SourceMapIndex::new(None, sections);
        let sv = SourceView::new(text.as_str().into());
        let whole_lines = ref_lines(&text);
        ctx.nontrivial_bytes(text.as_bytes());
        ctx.bucket_if(n_sec >= 2, "index-with-section-at-nonzero-offset");
        'outer: for (off, p) in &progs {
            let own_lines = ref_lines(&p.text);
            for (ti, t) in p.toks.iter().enumerate() {
                for name in ["a", "ab", "$", "f1", "_x", "é", "function"] {
                    for dc in [0u32, 1] {
                        let (ql, qc) = (off + t.l, t.c + dc);
                        // the token the lookup lands on inside this section
                        let start = if dc == 1 && p.toks.get(ti + 1).is_some_and(|nx| (nx.l, nx.c) == (t.l, t.c + 1)) { ti + 1 } else { ti };
                        let want = ref_resolve(&own_lines, &p.toks, start, name);
                        let deviant = ref_resolve(&whole_lines, &p.toks, start, name);
                        ctx.op("SourceMapIndex::get_original_function_name");
                        let r = catch(|| idx.get_original_function_name(ql, qc, name, &sv).map(str::to_string));
                        let data = || json!({"minified": text, "section_offsets(line)": progs.iter().map(|x| x.0).collect::<Vec<_>>(), "query": [ql, qc], "minified_name": name,
                                             "section_tokens(relative line,col,name)": p.toks.iter().map(|t| json!([t.l, t.c, t.name])).collect::<Vec<_>>()});
                        match (r, &want) {
                            (Err(pn), _) => {
                                ctx.violation(&panic_sig(&pn), "index-sections", n, format!("panicked: {pn}"), data());
                                break 'outer;
                            }
                            (Ok(_), Expect::Unasserted) => {}
                            (Ok(g), Expect::Must(w)) => {
                                if g == *w {
                                    ctx.bucket_if(g.is_some() && *off > 0, "index:resolved-in-section-at-nonzero-offset");
                                    ctx.bucket_if(g.is_some() && *off == 0, "index:resolved-in-first-section");
                                } else if *off > 0 && deviant == Expect::Must(g.clone()) {
                                    ctx.violation(
                                        "index-section-relative-coordinates",
                                        "index-sections",
                                        n,
                                        format!("index map, section at line {off}: {name:?} at ({ql},{qc}) resolves to {g:?}; reading the minified text at the tokens' positions in the file gives {w:?} (the crate reads the file at section-relative positions)"),
                                        data(),
                                    );
                                    break 'outer;
                                } else {
                                    ctx.violation("index-resolution-differs", "index-sections", n, format!("index map, section at line {off}: {name:?} at ({ql},{qc}) resolves to {g:?}, reference {w:?} (the known section-relative deviation would give {deviant:?})"), data());
                                    break 'outer;
                                }
                            }
                        }
                    }
                }
            }
        }
    }
}
