//! C16 - a SourceView shared between threads answers as if accessed by one.
//!
//! (1) controlled schedules: real threads, real code, every lock attempt / unlock / atomic
//!     operation of the view is a yield point (crate feature `verif_hooks`); all schedules of
//!     small scenarios by depth-first enumeration, sampled schedules for larger ones;
//! (2) free-running stress on real threads behind a barrier (hooks inert); the same workload
//!     is what the Miri (`--mode miri`) and TSan (`--mode stress`) shards execute.
//! Oracle: every call returns what the reference splitter says (a pure function of text and
//! call); no panic; no deadlock; afterwards the view still answers a probe caller correctly.

use std::collections::HashSet;
use std::sync::{Arc, Barrier};

use serde_json::{json, Value};
use sourcemap::SourceView;

use super::c15::ref_lines;
use crate::monitor::{catch, panic_sig, Ctx};
use crate::rng::Rng;
use crate::sched::{run_controlled, Dfs, Policy, Stuck};

#[derive(Debug, Clone, Copy, PartialEq, Eq, Hash)]
pub enum Call {
    Line(u32),
    Count,
    Lines,
}

#[derive(Debug, Clone, PartialEq, Eq)]
pub enum Answer {
    Line(Option<String>),
    Count(usize),
    Lines(Vec<String>),
    Panic(String),
}

fn exec(view: &SourceView, c: Call) -> Answer {
    let r = catch(|| match c {
        Call::Line(i) => Answer::Line(view.get_line(i).map(str::to_string)),
        Call::Count => Answer::Count(view.line_count()),
        Call::Lines => Answer::Lines(view.lines().map(str::to_string).collect()),
    });
    r.unwrap_or_else(Answer::Panic)
}

fn expected(text: &str, c: Call) -> Answer {
    let l = ref_lines(text);
    match c {
        Call::Line(i) => Answer::Line(l.get(i as usize).map(|s| s.to_string())),
        Call::Count => Answer::Count(l.len()),
        Call::Lines => Answer::Lines(l.iter().map(|s| s.to_string()).collect()),
    }
}

/// Executions that end in a livelock / deadlock leave threads behind that cannot be reclaimed
/// (they keep spinning or stay blocked inside the code under test), so a shard stops exploring
/// once it has this many violations on record.
const FAIL_FAST: u64 = 6;

pub const TEXTS: &[&str] = &["", "a", "a\nb", "a\nb\n", "a\r\nb\rc", "x\ny\nz\nw"];

fn calls_for(text: &str) -> Vec<Call> {
    let n = ref_lines(text).len() as u32;
    let mut v = vec![Call::Count, Call::Lines];
    for i in 0..n {
        v.push(Call::Line(i));
    }
    v.push(Call::Line(n));
    v.push(Call::Line(n + 4));
    v
}

fn word(decisions: &[crate::sched::Decision]) -> Vec<usize> {
    decisions.iter().map(|d| d.options[d.chosen_index]).collect()
}

struct Judge {
    vectors: HashSet<u64>,
    words: HashSet<u64>,
}

/// Checks one finished run; returns the first problem.
fn judge(text: &str, scripts: &[Vec<Call>], results: &[Option<Vec<Answer>>], stuck: &Option<Stuck>, view: &Arc<SourceView>, controlled: bool) -> Option<(String, String)> {
    if let Some(s) = stuck {
        return Some(match s {
            Stuck::Deadlock(w) => ("deadlock".to_string(), format!("no worker can make progress; workers are at {w:?}")),
            Stuck::Livelock(k) => ("livelock".to_string(), format!("after {k} yield points some worker still has not finished its calls (it keeps spinning on the view's lock/atomics)")),
            // a wall-clock guard is never a verdict: reported as inconclusive by the callers
            Stuck::NoProgress => ("INCONCLUSIVE:no-progress".to_string(), "the scheduled worker neither reached a yield point nor finished within 60 s of wall time".to_string()),
        });
    }
    for (w, script) in scripts.iter().enumerate() {
        let res = match &results[w] {
            Some(r) => r,
            None => return Some(("worker-lost".into(), format!("worker {w} did not report results"))),
        };
        for (k, c) in script.iter().enumerate() {
            let want = expected(text, *c);
            if res[k] != want {
                return Some(match &res[k] {
                    Answer::Panic(p) => (panic_sig(p), format!("worker {w} call #{k} {c:?} panicked: {p}")),
                    other => ("wrong-answer".to_string(), format!("worker {w} call #{k} {c:?} returned {other:?}, a single-threaded view returns {want:?}")),
                });
            }
        }
    }
    // the view must still be usable by a later caller. The probe runs as a single controlled
    // worker, so that a caller that would spin or block forever is recognised by the logical step
    // bound / the lock model instead of hanging the monitor.
    probe(text, view, controlled)
}

const PROBE: [Call; 5] = [Call::Line(0), Call::Count, Call::Lines, Call::Line(1), Call::Line(9)];

fn probe(text: &str, view: &Arc<SourceView>, controlled: bool) -> Option<(String, String)> {
    let answers: Vec<Answer> = if controlled {
        let v = view.clone();
        let body: Box<dyn FnOnce() -> Vec<Answer> + Send + 'static> = Box::new(move || PROBE.iter().map(|c| exec(&v, *c)).collect());
        let out = run_controlled(vec![body], Policy::Prefix(&[]));
        match out.stuck {
            Some(Stuck::Livelock(k)) => return Some(("view-unusable-afterwards".into(), format!("a later caller never finishes: still spinning on the view after {k} yield points"))),
            Some(Stuck::Deadlock(w)) => return Some(("view-unusable-afterwards".into(), format!("a later caller blocks forever on the view: {w:?}"))),
            Some(Stuck::NoProgress) => return Some(("INCONCLUSIVE:no-progress".into(), "the probe caller made no progress for 60 s of wall time".into())),
            None => out.results.into_iter().next().flatten().unwrap_or_default(),
        }
    } else {
        // free-running: the probe gets its own thread and a wall-clock guard (inconclusive when it fires)
        let v = view.clone();
        let (tx, rx) = std::sync::mpsc::channel();
        std::thread::spawn(move || {
            let _ = tx.send(PROBE.iter().map(|c| exec(&v, *c)).collect::<Vec<_>>());
        });
        match rx.recv_timeout(std::time::Duration::from_secs(120)) {
            Ok(a) => a,
            Err(_) => return Some(("INCONCLUSIVE:probe-timeout".into(), "the probe caller did not return within 120 s of wall time".into())),
        }
    };
    for (c, got) in PROBE.iter().zip(answers) {
        let want = expected(text, *c);
        if got != want {
            return Some(("view-unusable-afterwards".into(), format!("after all threads finished, {c:?} on the same view gives {got:?}, expected {want:?}")));
        }
    }
    None
}

fn controlled_once(text: &'static str, scripts: &[Vec<Call>], policy: Policy<'_>) -> (crate::sched::RunOutcome<Vec<Answer>>, Arc<SourceView>) {
    let view = Arc::new(SourceView::new(text.into()));
    let bodies: Vec<Box<dyn FnOnce() -> Vec<Answer> + Send + 'static>> = scripts
        .iter()
        .map(|script| {
            let view = view.clone();
            let script = script.clone();
            Box::new(move || script.iter().map(|c| exec(&view, *c)).collect()) as Box<dyn FnOnce() -> Vec<Answer> + Send + 'static>
        })
        .collect();
    (run_controlled(bodies, policy), view)
}

fn scenario_json(text: &str, scripts: &[Vec<Call>]) -> Value {
    json!({"text": text, "scripts": scripts.iter().map(|s| s.iter().map(|c| format!("{c:?}")).collect::<Vec<_>>()).collect::<Vec<_>>()})
}

fn note_run(ctx: &mut Ctx, j: &mut Judge, scen_hash: u64, out: &crate::sched::RunOutcome<Vec<Answer>>) {
    ctx.eval();
    let w = word(&out.decisions);
    let wh = crate::rng::mix(scen_hash, crate::rng::fnv1a(format!("{w:?}").as_bytes()));
    j.words.insert(wh);
    for d in &out.decisions {
        j.vectors.insert(crate::rng::fnv1a(format!("{:?}", d.vector).as_bytes()));
        if d.prev_first && d.chosen_index > 0 {
            let prev = d.options[0];
            ctx.bucket(&format!("preempted-at:{}", d.vector[prev].0));
        }
    }
    ctx.bucket(&format!("preemptions={}", out.preemptions.min(4)));
    if out.preemptions >= 1 {
        ctx.bucket("schedule-with-interleaved-calls");
        ctx.nontrivial(wh);
    }
    ctx.op_n("yield-points", out.decisions.len() as u64);
    ctx.note_max("yield-points-in-one-execution", out.decisions.len() as u64);
    if out.fair_switches > 0 {
        ctx.bucket("execution-with-fairness-switch(spin-wait)");
    }
    let (mut run, mut best) = (0u64, 0u64);
    for k in 0..w.len() {
        run = if k > 0 && w[k] == w[k - 1] { run + 1 } else { 1 };
        best = best.max(run);
    }
    ctx.note_max("consecutive-yield-points-of-one-worker", best);
}

/// All schedules (within the preemption bound) of one scenario.
fn explore(ctx: &mut Ctx, j: &mut Judge, stream: &str, n: u64, text: &'static str, scripts: &[Vec<Call>], bound: u32, cap: u64) -> u64 {
    let scen_hash = crate::rng::fnv1a(scenario_json(text, scripts).to_string().as_bytes());
    let mut dfs = Dfs::new(bound);
    let mut count = 0u64;
    let mut reported = false;
    while let Some(prefix) = dfs.next_prefix() {
        let (out, view) = controlled_once(text, scripts, Policy::Prefix(&prefix));
        dfs.record(&out.decisions);
        note_run(ctx, j, scen_hash, &out);
        count += 1;
        if out.preemptions >= 1 && (n % 29 == 3) && count < 40 {
            // a concrete interleaved schedule as evidence sample: worker ids at successive yield
            // points and where every worker was parked before each decision
            ctx.sample(|| {
                json!({"scenario": scenario_json(text, scripts), "schedule(worker ids at successive yield points)": word(&out.decisions),
                       "parked_at_before_each_decision": out.decisions.iter().map(|d| d.vector.iter().map(|v| v.0).collect::<Vec<_>>()).collect::<Vec<_>>(),
                       "answers": out.results.iter().map(|r| format!("{r:?}")).collect::<Vec<_>>()})
            });
        }
        if !reported {
            if let Some((sig, desc)) = judge(text, scripts, &out.results, &out.stuck, &view, true) {
                reported = true;
                if sig.starts_with("INCONCLUSIVE") {
                    ctx.inconclusive(format!("{desc} [text {text:?}, stream {stream}, case {n}]"));
                    break;
                }
                ctx.violation(
                    &sig,
                    stream,
                    n,
                    format!("{desc} [text {text:?}, schedule (worker ids at successive yield points) {:?}]", word(&out.decisions)),
                    json!({"scenario": scenario_json(text, scripts), "schedule_option_indices": prefix, "schedule_workers": word(&out.decisions),
                           "yield_points": out.decisions.iter().map(|d| format!("{:?}", d.vector)).collect::<Vec<_>>()}),
                );
            }
        }
        if out.stuck.is_some() || count >= cap {
            if count >= cap {
                ctx.bucket("exploration-capped");
            }
            break;
        }
    }
    count
}

/// One free-running round. None = the threads did not all finish within the wall-clock guard
/// (they are left behind detached; the caller stops the stream and reports *inconclusive*).
fn stress_round(text: &'static str, scripts: &[Vec<Call>]) -> Option<(Vec<Vec<Answer>>, Arc<SourceView>)> {
    let view = Arc::new(SourceView::new(text.into()));
    let barrier = Arc::new(Barrier::new(scripts.len()));
    let (tx, rx) = std::sync::mpsc::channel();
    for (i, script) in scripts.iter().enumerate() {
        let (view, barrier, script, tx) = (view.clone(), barrier.clone(), script.clone(), tx.clone());
        std::thread::spawn(move || {
            barrier.wait();
            let r = script.iter().map(|c| exec(&view, *c)).collect::<Vec<_>>();
            let _ = tx.send((i, r));
        });
    }
    drop(tx);
    let deadline = std::time::Instant::now() + std::time::Duration::from_secs(120);
    let mut res: Vec<Option<Vec<Answer>>> = vec![None; scripts.len()];
    for _ in 0..scripts.len() {
        let left = deadline.saturating_duration_since(std::time::Instant::now());
        match rx.recv_timeout(left) {
            Ok((i, r)) => res[i] = Some(r),
            Err(_) => return None,
        }
    }
    Some((res.into_iter().map(|r| r.unwrap_or_default()).collect(), view))
}

fn random_scripts(rng: &mut Rng, text: &str, threads: usize, calls: usize) -> Vec<Vec<Call>> {
    let pool = calls_for(text);
    (0..threads).map(|_| (0..calls).map(|_| *rng.pick(&pool)).collect()).collect()
}

pub fn run(ctx: &mut Ctx) {
    ctx.set_case_cpu_limit(600);
    match ctx.mode.as_str() {
        "miri" => return stress(ctx, ctx.size(48, 160), true),
        "stress" => return stress(ctx, ctx.size(20_000, 400_000), false),
        _ => {}
    }
    let mut j = Judge { vectors: HashSet::new(), words: HashSet::new() };
    // preemption bounds (CHESS-style) and a per-scenario cap on the number of schedules
    let (bound21, bound22, bound31, cap) = if ctx.quick() { (3u32, 2u32, 2u32, 3_000u64) } else { (99, 3, 3, 20_000) };
    ctx.note("preemption_bounds(2x1,2x2,3x1)/cap_per_scenario", json!([bound21, bound22, bound31, cap]));

    // ---- exhaustive: 2 threads x 1 call, every pair of calls, every text
    let mut scen: Vec<(&'static str, Vec<Vec<Call>>)> = vec![];
    for &t in TEXTS {
        let calls = calls_for(t);
        for &a in &calls {
            for &b in &calls {
                scen.push((t, vec![vec![a], vec![b]]));
            }
        }
    }
    let total = scen.len() as u64;
    let mut schedules = 0;
    for n in ctx.cases("exhaustive-2x1", total) {
        ctx.begin("exhaustive-2x1", n);
        if ctx.violation_count() >= FAIL_FAST {
            break;
        }
        let (t, s) = &scen[n as usize];
        schedules += explore(ctx, &mut j, "exhaustive-2x1", n, t, s, bound21, cap);
        if n % 37 == 0 {
            ctx.sample(|| scenario_json(t, s));
        }
    }
    ctx.exhaustive(&format!("2 threads x 1 call: every ordered pair of calls (get_line for every present index, two absent ones, line_count, lines) on each of {} texts ({total} scenarios), every interleaving at yield-point granularity with at most {bound21} preemptions (99 = unbounded), unless a scenario hit the cap (bucket exploration-capped); schedules that only differ in how long a spin-waiting worker keeps spinning are pruned (bucket execution-with-fairness-switch, absent when the code never spin-waits)", TEXTS.len()));
    ctx.note_add("schedules:exhaustive-2x1", schedules);

    // ---- exhaustive: 2 threads x 2 calls and 3 threads x 1 call on sampled call tuples
    let total = ctx.size(160, 1_600);
    let mut schedules = 0;
    for n in ctx.cases("exhaustive-2x2", total) {
        let mut rng = ctx.begin("exhaustive-2x2", n);
        if ctx.violation_count() >= FAIL_FAST {
            break;
        }
        let t = *rng.pick(TEXTS);
        let s = random_scripts(&mut rng, t, 2, 2);
        schedules += explore(ctx, &mut j, "exhaustive-2x2", n, t, &s, bound22, cap);
    }
    ctx.note_add("schedules:exhaustive-2x2", schedules);
    let total = ctx.size(100, 1_000);
    let mut schedules = 0;
    for n in ctx.cases("bounded-3x1", total) {
        let mut rng = ctx.begin("bounded-3x1", n);
        if ctx.violation_count() >= FAIL_FAST {
            break;
        }
        let t = *rng.pick(TEXTS);
        let s = random_scripts(&mut rng, t, 3, 1);
        schedules += explore(ctx, &mut j, "bounded-3x1", n, t, &s, bound31, cap);
    }
    ctx.note_add("schedules:3x1(<=3 preemptions)", schedules);

    // ---- sampled schedules: 3x2, 3x3, 4x1..3
    let total = ctx.size(6_000, 400_000);
    for n in ctx.cases("sampled", total) {
        let mut rng = ctx.begin("sampled", n);
        if ctx.violation_count() >= FAIL_FAST {
            break;
        }
        let t = *rng.pick(TEXTS);
        let (th, ca) = *rng.pick(&[(3usize, 2usize), (3, 3), (4, 1), (4, 2), (4, 3), (2, 3)]);
        let s = random_scripts(&mut rng, t, th, ca);
        let scen_hash = crate::rng::fnv1a(scenario_json(t, &s).to_string().as_bytes());
        let (out, view) = controlled_once(t, &s, Policy::Random(&mut rng));
        note_run(ctx, &mut j, scen_hash, &out);
        ctx.bucket(&format!("sampled:{th}x{ca}"));
        if let Some((sig, desc)) = judge(t, &s, &out.results, &out.stuck, &view, true) {
            if sig.starts_with("INCONCLUSIVE") {
                ctx.inconclusive(format!("{desc} [sampled case {n}]"));
                continue;
            }
            ctx.violation(&sig, "sampled", n, format!("{desc} [text {t:?}, schedule {:?}]", word(&out.decisions)), json!({"scenario": scenario_json(t, &s), "schedule_workers": word(&out.decisions)}));
        }
    }
    ctx.note_add("distinct_schedules(this shard)", j.words.len() as u64);
    ctx.note_add("distinct_yield_point_vectors(this shard)", j.vectors.len() as u64);

    // ---- free-running stress (hooks stay installed but inert for uncontrolled threads)
    if ctx.violation_count() < FAIL_FAST {
        stress(ctx, ctx.size(6_000, 300_000), false);
    }
}

fn stress(ctx: &mut Ctx, rounds: u64, tiny: bool) {
    for n in ctx.cases("free-running", rounds) {
        let mut rng = ctx.begin("free-running", n);
        if ctx.violation_count() >= FAIL_FAST {
            break;
        }
        let t = *rng.pick(TEXTS);
        let threads = if tiny { 3 } else { rng.range_usize(2, 8) };
        let calls = if tiny { 2 } else { rng.range_usize(1, 3) };
        let s = random_scripts(&mut rng, t, threads, calls);
        ctx.eval();
        ctx.op_n("calls", (threads * calls) as u64);
        ctx.bucket(&format!("free-running:{threads}-threads"));
        ctx.nontrivial(crate::rng::mix(n, crate::rng::fnv1a(scenario_json(t, &s).to_string().as_bytes())));
        let (res, view) = match stress_round(t, &s) {
            Some(x) => x,
            None => {
                // a wall-clock guard is not a verdict; the stuck threads cannot be reclaimed, so the
                // stream ends here (what was recorded so far is still reported)
                ctx.inconclusive(format!("free-running round {n} ({threads} threads x {calls} calls on {t:?}) did not finish within 120 s of wall time"));
                return;
            }
        };
        let res: Vec<Option<Vec<Answer>>> = res.into_iter().map(Some).collect();
        if let Some((sig, desc)) = judge(t, &s, &res, &None, &view, false) {
            if sig.starts_with("INCONCLUSIVE") {
                ctx.inconclusive(format!("{desc} [free-running round {n}]"));
                return;
            }
            ctx.violation(&sig, "free-running", n, format!("free-running threads: {desc} [text {t:?}]"), json!({"scenario": scenario_json(t, &s)}));
        }
        if n < 16 {
            ctx.sample(|| scenario_json(t, &s));
        }
    }
}
