//! C20 - indexed RAM bundles are parsed exactly and malformed ones are refused.
//!
//! Well-formed half: bundles written from a model by an independent writer. Corruption half
//! (fault enumeration): truncation at every length, every 32-bit field set to each of a list of
//! extreme values, every magic byte altered. Oracle for arbitrary bytes: a *total* reference
//! parser; additionally every slice the crate returns must lie inside the input buffer.

use serde_json::{json, Value};
use sourcemap::ram_bundle::{is_ram_bundle_slice, RamBundle, RamBundleType};

use crate::monitor::{catch, panic_sig, Ctx};
use crate::rng::Rng;

const MAGIC: u32 = 0xFB0B_D1E5;

#[derive(Debug, Clone)]
pub struct BundleModel {
    pub startup: Vec<u8>,
    /// table slots: None = empty slot, Some(code without the trailing NUL)
    pub modules: Vec<Option<Vec<u8>>>,
    /// physical order in which the present modules are laid out after the startup code
    pub order: Vec<usize>,
    /// gap bytes inserted before each laid-out module
    pub gaps: Vec<usize>,
}

/// Independent writer: header (magic, module count, startup size; little endian), table of
/// (offset relative to the end of the table, length incl. NUL), startup code, modules + NUL.
pub fn write_bundle(m: &BundleModel) -> Vec<u8> {
    let n = m.modules.len();
    let mut body: Vec<u8> = m.startup.clone();
    let mut entries = vec![(0u32, 0u32); n];
    for (k, &id) in m.order.iter().enumerate() {
        body.extend(std::iter::repeat(0xAAu8).take(m.gaps[k]));
        let code = m.modules[id].as_ref().unwrap();
        entries[id] = (body.len() as u32, code.len() as u32 + 1);
        body.extend_from_slice(code);
        body.push(0);
    }
    let mut out = vec![];
    out.extend_from_slice(&MAGIC.to_le_bytes());
    out.extend_from_slice(&(n as u32).to_le_bytes());
    out.extend_from_slice(&(m.startup.len() as u32).to_le_bytes());
    for (o, l) in entries {
        out.extend_from_slice(&o.to_le_bytes());
        out.extend_from_slice(&l.to_le_bytes());
    }
    out.extend_from_slice(&body);
    out
}

fn u32_at(b: &[u8], off: usize) -> Option<u32> {
    let s = b.get(off..off.checked_add(4)?)?;
    Some(u32::from_le_bytes([s[0], s[1], s[2], s[3]]))
}

#[derive(Debug, Clone, PartialEq, Eq)]
pub enum RefModule {
    Present(Vec<u8>),
    Empty,
    /// out of range / not readable; `lenient_empty`: the data range is empty and starts exactly
    /// at the end of the buffer (an implementation may return an empty slice or an error)
    Error { lenient_empty: bool },
}

#[derive(Debug, Clone, PartialEq, Eq)]
pub struct RefBundle {
    pub module_count: usize,
    pub startup: Result<Vec<u8>, bool>, // Err(lenient_empty)
}

/// Total reference parser of the header. None = not a bundle (short header or wrong magic).
pub fn ref_parse(b: &[u8]) -> Option<RefBundle> {
    if b.len() < 12 || u32_at(b, 0)? != MAGIC {
        return None;
    }
    let n = u32_at(b, 4)? as usize;
    let ss = u32_at(b, 8)? as usize;
    let so = 12u64 + 8 * n as u64;
    let startup = read_range(b, so, ss as u64);
    Some(RefBundle { module_count: n, startup })
}

fn read_range(b: &[u8], off: u64, len: u64) -> Result<Vec<u8>, bool> {
    let end = off + len;
    if end <= b.len() as u64 && (off < b.len() as u64 || len == 0 && off < b.len() as u64) {
        Ok(b[off as usize..end as usize].to_vec())
    } else {
        Err(len == 0 && off == b.len() as u64)
    }
}

pub fn ref_module(b: &[u8], id: usize) -> RefModule {
    let rb = match ref_parse(b) {
        Some(r) => r,
        None => return RefModule::Error { lenient_empty: false },
    };
    if id >= rb.module_count {
        return RefModule::Error { lenient_empty: false };
    }
    let eo = 12 + 8 * id;
    let (off, len) = match (u32_at(b, eo), u32_at(b, eo + 4)) {
        (Some(o), Some(l)) => (o, l),
        _ => return RefModule::Error { lenient_empty: false },
    };
    if off == 0 && len == 0 {
        return RefModule::Empty;
    }
    if len == 0 {
        return RefModule::Error { lenient_empty: false };
    }
    let so = 12u64 + 8 * rb.module_count as u64;
    match read_range(b, so + u64::from(off), u64::from(len) - 1) {
        Ok(d) => RefModule::Present(d),
        Err(l) => RefModule::Error { lenient_empty: l },
    }
}

fn inside(buf: &[u8], s: &[u8]) -> bool {
    let (b0, b1) = (buf.as_ptr() as usize, buf.as_ptr() as usize + buf.len());
    let (s0, s1) = (s.as_ptr() as usize, s.as_ptr() as usize + s.len());
    s.is_empty() && (s0 >= b0 && s0 <= b1) || (s0 >= b0 && s1 <= b1)
}

type Fail = (String, String);

/// Checks the crate against the total reference on arbitrary bytes. The bytes are placed in an
/// exact-size heap allocation so that an over-read is adjacent to a red zone.
pub fn check_bytes(ctx: &mut Ctx, bytes: &[u8]) -> Result<(), Fail> {
    let buf: Box<[u8]> = bytes.to_vec().into_boxed_slice();
    let want = ref_parse(&buf);
    ctx.op("is_ram_bundle_slice");
    let is = is_ram_bundle_slice(&buf);
    if is != want.is_some() {
        return Err(("recognition".into(), format!("is_ram_bundle_slice = {is}, a complete 12-byte header with the magic number leads: {}", want.is_some())));
    }
    ctx.op("parse_indexed_from_slice");
    let parsed = RamBundle::parse_indexed_from_slice(&buf);
    let rb = match (parsed, &want) {
        (Err(_), None) => {
            ctx.bucket("refused:not-a-bundle");
            return Ok(());
        }
        (Ok(_), None) => return Err(("parsed-without-header".into(), "parse_indexed_from_slice accepted bytes without a complete header + magic".into())),
        (Err(e), Some(w)) => {
            // The statement ties *recognition* to header + magic; parsing must succeed for every
            // well-formed bundle, and for every other byte string "parsing and every later access
            // return an error" - so a parser that already refuses an ill-formed bundle up front is
            // within it. Ill-formed = the reference finds the startup code or some table entry
            // unreadable.
            let ill_formed = w.startup.is_err()
                || (0..w.module_count.min(1 << 16)).any(|id| matches!(ref_module(&buf, id), RefModule::Error { .. }))
                || w.module_count > (1 << 16);
            if ill_formed {
                ctx.bucket("refused-at-parse:ill-formed-bundle-with-complete-header");
                return Ok(());
            }
            return Err(("header-rejected".into(), format!("parse_indexed_from_slice rejected a well-formed bundle (complete header, right magic, startup code and every table entry readable): {e}")));
        }
        (Ok(b), Some(_)) => b,
    };
    let want = want.unwrap();
    if rb.bundle_type() != RamBundleType::Indexed {
        return Err(("bundle-type".into(), "bundle_type() is not Indexed".into()));
    }
    if rb.module_count() != want.module_count {
        return Err(("module-count".into(), format!("module_count() = {}, header says {}", rb.module_count(), want.module_count)));
    }
    ctx.op("startup_code");
    match (rb.startup_code(), &want.startup) {
        (Ok(s), Ok(w)) => {
            if !inside(&buf, s) {
                return Err(("slice-outside-buffer".into(), "startup_code() returned a slice outside the input buffer".into()));
            }
            if s != &w[..] {
                return Err(("startup-code".into(), format!("startup_code() has {} bytes, expected {} bytes / different content", s.len(), w.len())));
            }
        }
        (Err(_), Err(_)) => ctx.bucket("refused:startup-code-out-of-range"),
        (Ok(s), Err(lenient)) => {
            if !(*lenient && s.is_empty() && inside(&buf, s)) {
                return Err(("startup-code-out-of-range-accepted".into(), format!("startup_code() returned {} bytes although the range lies outside the buffer", s.len())));
            }
        }
        (Err(e), Ok(w)) => {
            if !w.is_empty() {
                return Err(("startup-code-rejected".into(), format!("startup_code() failed ({e}) although the range is inside the buffer")));
            }
        }
    }
    // modules: every id of the table (capped) and a few past it
    let n = want.module_count;
    let ids: Vec<usize> = (0..n.min(40)).chain([n, n + 1, n.saturating_mul(2), usize::MAX]).collect();
    for id in ids {
        ctx.op("get_module");
        let w = ref_module(&buf, id);
        match (rb.get_module(id), &w) {
            (Ok(Some(m)), RefModule::Present(d)) => {
                if !inside(&buf, m.data()) {
                    return Err(("slice-outside-buffer".into(), format!("get_module({id}) returned a slice outside the input buffer")));
                }
                if m.data() != &d[..] || m.id() != id {
                    return Err(("module-bytes".into(), format!("get_module({id}) returned {} bytes (id {}), expected {} bytes", m.data().len(), m.id(), d.len())));
                }
            }
            (Ok(None), RefModule::Empty) => {}
            (Err(_), RefModule::Error { .. }) => ctx.bucket(if id >= n { "refused:id-past-table" } else { "refused:module-entry-out-of-range" }),
            (Ok(Some(m)), RefModule::Error { lenient_empty: true }) if m.data().is_empty() && inside(&buf, m.data()) => {}
            (Err(_), RefModule::Present(d)) if d.is_empty() => {
                // zero-length read positioned exactly at the end of the buffer: either answer is fine
                ctx.bucket("lenient:empty-module-at-end-of-buffer");
            }
            (got, w) => {
                let g = match got {
                    Ok(Some(m)) => format!("Ok(Some({} bytes))", m.data().len()),
                    Ok(None) => "Ok(None)".to_string(),
                    Err(e) => format!("Err({e})"),
                };
                let sig = match w {
                    RefModule::Error { .. } => "malformed-entry-accepted",
                    RefModule::Empty => "empty-slot",
                    RefModule::Present(_) => "module-rejected",
                };
                return Err((sig.into(), format!("get_module({id}) = {g}, reference {w:?}")));
            }
        }
    }
    // iterator: exactly the present modules in id order (errors where the reference has errors)
    if n <= 64 {
        ctx.op("iter_modules");
        let mut it = rb.iter_modules();
        for id in 0..n {
            match ref_module(&buf, id) {
                RefModule::Empty => {}
                RefModule::Present(d) => match it.next() {
                    Some(Ok(m)) if m.id() == id && m.data() == &d[..] => {}
                    Some(Err(_)) if d.is_empty() => {}
                    other => return Err(("iterator".into(), format!("iter_modules at id {id}: got {:?}, expected the module", other.map(|r| r.map(|m| (m.id(), m.data().len())).map_err(|e| e.to_string()))))),
                },
                RefModule::Error { lenient_empty } => match it.next() {
                    Some(Err(_)) => {}
                    Some(Ok(m)) if lenient_empty && m.data().is_empty() => {}
                    other => return Err(("iterator".into(), format!("iter_modules at id {id}: got {:?}, expected an error", other.map(|r| r.map(|m| (m.id(), m.data().len())).map_err(|e| e.to_string()))))),
                },
            }
        }
        if let Some(x) = it.next() {
            return Err(("iterator".into(), format!("iter_modules yields an extra item {:?}", x.map(|m| m.id()).map_err(|e| e.to_string()))));
        }
    }
    Ok(())
}

pub fn gen_model(rng: &mut Rng) -> BundleModel {
    let n = rng.range_usize(0, 12);
    let modules: Vec<Option<Vec<u8>>> = (0..n)
        .map(|_| {
            if rng.chance(1, 4) {
                None
            } else {
                let len = match rng.below(5) {
                    0 => 0,
                    1 => 1,
                    _ => rng.range_usize(2, 60),
                };
                Some((0..len).map(|_| if rng.chance(1, 5) { rng.next_u32() as u8 | 0x80 } else { b' ' + rng.below(90) as u8 }).collect())
            }
        })
        .collect();
    let mut order: Vec<usize> = (0..n).filter(|&i| modules[i].is_some()).collect();
    if rng.bool() {
        rng.shuffle(&mut order);
    }
    let gaps = order.iter().map(|_| if rng.chance(1, 4) { rng.range_usize(1, 5) } else { 0 }).collect();
    let sl = match rng.below(4) {
        0 => 1,
        1 => rng.range_usize(1, 10),
        _ => rng.range_usize(1, 300),
    };
    BundleModel { startup: (0..sl).map(|_| b'a' + rng.below(26) as u8).collect(), modules, order, gaps }
}

fn model_json(m: &BundleModel) -> Value {
    json!({"startup_len": m.startup.len(), "modules": m.modules.iter().map(|x| x.as_ref().map(|d| d.len())).collect::<Vec<_>>(), "physical_order": m.order, "gaps": m.gaps})
}

fn hex(b: &[u8]) -> String {
    b.iter().take(600).map(|x| format!("{x:02x}")).collect()
}

pub fn run(ctx: &mut Ctx) {
    let (mode_scale, label) = match ctx.mode.as_str() {
        "miri" => (0u64, "miri"),
        "valgrind" => (0, "valgrind"),
        _ => (1, "main"),
    };
    let total = if mode_scale == 0 { if label == "miri" { 16 } else { 160 } } else { ctx.size(3_000, 200_000) };
    for n in ctx.cases("bundles", total) {
        let mut rng = ctx.begin("bundles", n);
        let m = gen_model(&mut rng);
        let bytes = write_bundle(&m);
        let present = m.modules.iter().filter(|x| x.is_some()).count();
        // ---- well-formed half: the model is the oracle
        ctx.eval();
        if present >= 1 {
            ctx.nontrivial_bytes(&bytes);
        }
        ctx.bucket_if(m.modules.first().is_some_and(Option::is_none), "empty-slot-first");
        ctx.bucket_if(m.modules.last().is_some_and(Option::is_none), "empty-slot-last");
        ctx.bucket_if(m.modules.iter().flatten().any(|d| d.len() == 1), "module-of-length-1");
        ctx.bucket_if(m.modules.iter().flatten().any(|d| d.is_empty()), "module-of-length-0");
        ctx.bucket_if(m.modules.iter().flatten().any(|d| std::str::from_utf8(d).is_err()), "non-utf8-module");
        ctx.bucket_if(m.order.windows(2).any(|w| w[0] > w[1]), "modules-in-shuffled-physical-order");
        ctx.bucket_if(m.modules.is_empty(), "bundle-without-modules");
        ctx.bucket_if(m.order.last().is_some_and(|&i| m.modules[i].is_some()), "module-at-the-very-end-of-the-buffer");
        ctx.sample(|| model_json(&m));
        let r = catch(|| -> Result<(), Fail> {
            // the reference parser must read back the model (keeps the reference honest)
            let rb = ref_parse(&bytes).expect("reference parses own writer's output");
            assert_eq!(rb.module_count, m.modules.len());
            assert_eq!(rb.startup.as_ref().ok(), Some(&m.startup));
            for (i, md) in m.modules.iter().enumerate() {
                match md {
                    None => assert_eq!(ref_module(&bytes, i), RefModule::Empty),
                    Some(d) => assert_eq!(ref_module(&bytes, i), RefModule::Present(d.clone())),
                }
            }
            check_bytes(ctx, &bytes)?;
            // through the owning constructor too
            let owned = RamBundle::parse_indexed_from_vec(bytes.clone()).map_err(|e| ("from_vec-rejected".to_string(), e.to_string()))?;
            if owned.module_count() != m.modules.len() || owned.startup_code().ok() != Some(&m.startup[..]) {
                return Err(("from_vec-differs".into(), "parse_indexed_from_vec disagrees with the model".into()));
            }
            let listed: Vec<usize> = owned.iter_modules().filter_map(|r| r.ok()).map(|x| x.id()).collect();
            let want: Vec<usize> = (0..m.modules.len()).filter(|&i| m.modules[i].is_some()).collect();
            if listed != want {
                return Err(("iterator".into(), format!("iter_modules yields ids {listed:?}, present modules are {want:?}")));
            }
            Ok(())
        });
        match r {
            Err(p) => ctx.violation(&panic_sig(&p), "bundles", n, format!("well-formed bundle: panicked: {p}"), json!({"model": model_json(&m), "bytes_hex": hex(&bytes)})),
            Ok(Err((sig, d))) => ctx.violation(&sig, "bundles", n, format!("well-formed bundle: {d}"), json!({"model": model_json(&m), "bytes_hex": hex(&bytes)})),
            Ok(Ok(())) => {}
        }
        // ---- corruption half
        let mut corruptions: Vec<(Vec<u8>, String)> = vec![];
        let step = if label == "miri" { 7 } else { 1 };
        for len in (0..bytes.len()).step_by(step) {
            let region = if len < 12 { "header" } else if len < 12 + 8 * m.modules.len() { "table" } else if len < 12 + 8 * m.modules.len() + m.startup.len() { "startup" } else { "module" };
            corruptions.push((bytes[..len].to_vec(), format!("truncated-inside-{region}")));
        }
        let n_fields = 3 + 2 * m.modules.len();
        let blen = bytes.len() as u32;
        for f in 0..n_fields {
            let off = 4 * f;
            if f == 0 {
                for b in 0..4 {
                    let mut c = bytes.clone();
                    c[b] ^= 1 << rng.below(8);
                    corruptions.push((c, "magic-byte-altered".into()));
                }
                continue;
            }
            let fname = if f == 1 { "module-count" } else if f == 2 { "startup-size" } else if (f - 3) % 2 == 0 { "entry-offset" } else { "entry-length" };
            for v in [0u32, 1, blen.wrapping_sub(1), blen, blen.wrapping_add(1), 1 << 31, u32::MAX, u32::MAX - 1] {
                if label == "miri" && !(v == 0 || v == blen || v == u32::MAX) {
                    continue;
                }
                let mut c = bytes.clone();
                c[off..off + 4].copy_from_slice(&v.to_le_bytes());
                let class = if v >= 1 << 31 { "near-2^32" } else if v == 0 { "zero" } else { "around-buffer-length" };
                corruptions.push((c, format!("{fname}={class}")));
            }
        }
        // zero length with non-zero offset, explicitly
        for i in 0..m.modules.len() {
            let mut c = bytes.clone();
            let eo = 12 + 8 * i;
            c[eo..eo + 4].copy_from_slice(&5u32.to_le_bytes());
            c[eo + 4..eo + 8].copy_from_slice(&0u32.to_le_bytes());
            corruptions.push((c, "zero-length-with-nonzero-offset".into()));
        }
        for (c, kind) in corruptions {
            ctx.eval();
            ctx.bucket(&format!("corruption:{kind}"));
            ctx.nontrivial(crate::rng::mix(crate::rng::fnv1a(&c), 0x20));
            match catch(|| check_bytes(ctx, &c)) {
                Err(p) => ctx.violation(&panic_sig(&p), "bundles", n, format!("corruption {kind}: panicked: {p}"), json!({"corruption": kind, "bytes_hex": hex(&c), "len": c.len()})),
                Ok(Err((sig, d))) => ctx.violation(&sig, "bundles", n, format!("corruption {kind}: {d}"), json!({"corruption": kind, "bytes_hex": hex(&c), "len": c.len()})),
                Ok(Ok(())) => {}
            }
        }
    }
    // ---- arbitrary bytes with / without the magic
    let total = if mode_scale == 0 { 40 } else { ctx.size(100_000, 5_000_000) };
    for n in ctx.cases("random-bytes", total) {
        let mut rng = ctx.begin("random-bytes", n);
        ctx.eval();
        let len = rng.range_usize(0, 80);
        let mut b: Vec<u8> = (0..len).map(|_| if rng.chance(1, 3) { 0 } else { rng.next_u32() as u8 }).collect();
        if rng.chance(3, 4) && len >= 4 {
            b[..4].copy_from_slice(&MAGIC.to_le_bytes());
            if len >= 8 && rng.bool() {
                b[4..8].copy_from_slice(&(rng.below(8) as u32).to_le_bytes());
            }
        }
        ctx.nontrivial(crate::rng::fnv1a(&b));
        match catch(|| check_bytes(ctx, &b)) {
            Err(p) => ctx.violation(&panic_sig(&p), "random-bytes", n, format!("panicked: {p}"), json!({"bytes_hex": hex(&b)})),
            Ok(Err((sig, d))) => ctx.violation(&sig, "random-bytes", n, d, json!({"bytes_hex": hex(&b)})),
            Ok(Ok(())) => {}
        }
    }
}
