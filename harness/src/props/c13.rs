//! C13 - builder and in-place setters behave like a simple interning model (histories).

use serde_json::{json, Value};
use sourcemap::{SourceMap, SourceMapBuilder};

use crate::model::{gen_debug_id, join_root, CONTENT_POOL, FILE_POOL, NAME_POOL, ROOT_POOL, SOURCE_POOL};
use crate::monitor::{catch, panic_sig, Ctx};
use crate::rng::Rng;

type Fail = (String, String);

#[derive(Default)]
struct BuilderModel {
    sources: Vec<String>,
    names: Vec<String>,
    contents: Vec<Option<String>>, // grows like the builder's: resized to sources.len() on set
    ignore: std::collections::BTreeSet<u32>,
    root: Option<String>,
    file: Option<String>,
    debug_id: Option<String>,
    /// (tag = dst_line, source string, name string)
    tokens: Vec<(u32, Option<u32>, Option<u32>, u32, u32, bool)>,
}

impl BuilderModel {
    fn intern(v: &mut Vec<String>, s: &str) -> u32 {
        match v.iter().position(|x| x == s) {
            Some(i) => i as u32,
            None => {
                v.push(s.to_string());
                (v.len() - 1) as u32
            }
        }
    }
}

fn builder_history(ctx: &mut Ctx, rng: &mut Rng, log: &mut Vec<Value>) -> Result<(), Fail> {
    let mut m = BuilderModel::default();
    let init_file = if rng.bool() { Some(rng.pick(FILE_POOL).to_string()) } else { None };
    let mut b = SourceMapBuilder::new(init_file.as_deref());
    m.file = init_file.clone();
    log.push(json!({"op": "new", "file": init_file}));
    let n_ops = rng.range_usize(3, 40);
    let mut tag = 0u32;
    let mut dup_add = false;
    let mut root_change = false;
    for _ in 0..n_ops {
        match rng.below(12) {
            0 | 1 => {
                let s = *rng.pick(SOURCE_POOL);
                let before = m.sources.len();
                let want = BuilderModel::intern(&mut m.sources, s);
                dup_add |= m.sources.len() == before;
                ctx.bucket_if(m.sources.len() == before && (want as usize) + 1 < before, "duplicate-source-re-added-after-other-inserts");
                ctx.op("add_source");
                let got = b.add_source(s);
                log.push(json!({"op": "add_source", "arg": s, "returned": got}));
                if got != want {
                    return Err(("add_source-id".into(), format!("add_source({s:?}) returned {got}, interning model says {want}")));
                }
            }
            2 | 3 => {
                let s = *rng.pick(NAME_POOL);
                let before = m.names.len();
                let want = BuilderModel::intern(&mut m.names, s);
                dup_add |= m.names.len() == before;
                ctx.op("add_name");
                let got = b.add_name(s);
                log.push(json!({"op": "add_name", "arg": s, "returned": got}));
                if got != want {
                    return Err(("add_name-id".into(), format!("add_name({s:?}) returned {got}, interning model says {want}")));
                }
            }
            4 | 5 => {
                let src = if rng.chance(1, 6) { None } else { Some(*rng.pick(SOURCE_POOL)) };
                let name = if src.is_some() && rng.bool() { Some(*rng.pick(NAME_POOL)) } else { None };
                let (sl, sc, range) = (rng.below(50) as u32, rng.below(50) as u32, rng.chance(1, 8));
                let want_s = src.map(|s| BuilderModel::intern(&mut m.sources, s));
                let want_n = name.map(|s| BuilderModel::intern(&mut m.names, s));
                ctx.op("add");
                let raw = b.add(tag, 5, sl, sc, src, name, range);
                log.push(json!({"op": "add", "tag(dst_line)": tag, "source": src, "name": name, "returned_ids": [raw.src_id as i64, raw.name_id as i64]}));
                if raw.src_id != want_s.unwrap_or(!0) || raw.name_id != want_n.unwrap_or(!0) {
                    return Err(("add-ids".into(), format!("add(source={src:?}, name={name:?}) returned ids ({}, {}), interning model says ({:?}, {:?})", raw.src_id, raw.name_id, want_s, want_n)));
                }
                if raw.dst_line != tag || raw.src_line != sl || raw.src_col != sc || raw.is_range != range {
                    return Err(("add-token".into(), format!("add returned {raw:?} for tag {tag}")));
                }
                m.tokens.push((tag, want_s, want_n, sl, sc, range));
                tag += 1;
            }
            6 => {
                if m.sources.is_empty() {
                    continue;
                }
                let sid = rng.below(m.sources.len() as u64) as u32;
                let nid = if !m.names.is_empty() && rng.bool() { Some(rng.below(m.names.len() as u64) as u32) } else { None };
                let (sl, sc) = (rng.below(50) as u32, rng.below(50) as u32);
                ctx.op("add_raw");
                let raw = b.add_raw(tag, 9, sl, sc, Some(sid), nid, false);
                log.push(json!({"op": "add_raw", "tag(dst_line)": tag, "source_id": sid, "name_id": nid}));
                if raw.src_id != sid || raw.name_id != nid.unwrap_or(!0) {
                    return Err(("add_raw-ids".into(), format!("add_raw returned {raw:?}")));
                }
                m.tokens.push((tag, Some(sid), nid, sl, sc, false));
                tag += 1;
            }
            7 => {
                if m.sources.is_empty() {
                    continue;
                }
                let sid = rng.below(m.sources.len() as u64) as u32;
                let c = if rng.chance(1, 5) { None } else { Some(*rng.pick(CONTENT_POOL)) };
                if m.sources.len() > m.contents.len() {
                    m.contents.resize(m.sources.len(), None);
                }
                ctx.bucket_if((sid as usize) < m.sources.len(), "contents-set");
                m.contents[sid as usize] = c.map(str::to_string);
                ctx.op("set_source_contents");
                b.set_source_contents(sid, c);
                log.push(json!({"op": "set_source_contents", "id": sid, "contents": c}));
                if b.get_source_contents(sid) != c {
                    return Err(("builder-contents-readback".into(), format!("get_source_contents({sid}) after set = {:?}", b.get_source_contents(sid))));
                }
            }
            8 => {
                if m.sources.is_empty() {
                    continue;
                }
                let sid = rng.below(m.sources.len() as u64) as u32;
                m.ignore.insert(sid);
                ctx.op("add_to_ignore_list");
                b.add_to_ignore_list(sid);
                log.push(json!({"op": "add_to_ignore_list", "id": sid}));
            }
            9 => {
                let r = match rng.below(4) {
                    0 => None,
                    1 => Some(String::new()),
                    _ => Some(rng.pick(ROOT_POOL).to_string()),
                };
                root_change = true;
                m.root = r.clone();
                ctx.op("set_source_root");
                b.set_source_root(r.clone());
                log.push(json!({"op": "set_source_root", "root": r}));
                if b.get_source_root() != r.as_deref() {
                    return Err(("builder-root-readback".into(), "get_source_root differs from what was set".into()));
                }
            }
            10 => {
                let f = if rng.chance(1, 4) { None } else { Some(rng.pick(FILE_POOL).to_string()) };
                m.file = f.clone();
                ctx.op("set_file");
                b.set_file(f.clone());
                log.push(json!({"op": "set_file", "file": f}));
            }
            _ => {
                let d = if rng.chance(1, 4) { None } else { Some(gen_debug_id(rng)) };
                m.debug_id = d.clone();
                ctx.op("set_debug_id");
                b.set_debug_id(d.as_ref().map(|s| s.parse().unwrap()));
                log.push(json!({"op": "set_debug_id", "id": d}));
            }
        }
    }
    ctx.bucket_if(m.contents.len() < m.sources.len() && m.contents.iter().any(Option::is_some), "contents-set-before-later-sources-were-added");
    if log.len() >= 5 && (dup_add || root_change) {
        ctx.nontrivial(crate::monitor::hash_value(&json!(log)));
    }
    ctx.op("into_sourcemap");
    let sm = b.into_sourcemap();
    log.push(json!({"op": "into_sourcemap"}));
    // the finished map
    let root = m.root.as_deref();
    let want_sources: Vec<String> = m.sources.iter().map(|s| join_root(root, s)).collect();
    let got_sources: Vec<String> = sm.sources().map(str::to_string).collect();
    if got_sources != want_sources {
        return Err(("finished-sources".into(), format!("finished map sources {got_sources:?}, model {want_sources:?} (root {root:?})")));
    }
    let got_names: Vec<String> = sm.names().map(str::to_string).collect();
    if got_names != m.names {
        return Err(("finished-names".into(), format!("finished map names {got_names:?}, model {:?}", m.names)));
    }
    for i in 0..m.sources.len() {
        let want = m.contents.get(i).cloned().flatten();
        let got = sm.get_source_contents(i as u32).map(str::to_string);
        if got != want {
            return Err(("finished-contents".into(), format!("contents of source {i}: {got:?}, model {want:?}")));
        }
    }
    // the statement gives the ignore list no order: compare as sets
    if sm.ignore_list().cloned().collect::<std::collections::BTreeSet<u32>>() != m.ignore.iter().cloned().collect::<std::collections::BTreeSet<u32>>() {
        return Err(("finished-ignore-list".into(), format!("ignore list {:?}, model {:?}", sm.ignore_list().collect::<Vec<_>>(), m.ignore)));
    }
    if sm.get_file() != m.file.as_deref() {
        return Err(("finished-file".into(), format!("file {:?}, model {:?}", sm.get_file(), m.file)));
    }
    if sm.get_source_root() != m.root.as_deref() {
        return Err(("finished-root".into(), format!("root {:?}, model {:?}", sm.get_source_root(), m.root)));
    }
    if sm.get_debug_id().map(|d| d.to_string()) != m.debug_id {
        return Err(("finished-debug-id".into(), format!("debug id {:?}, model {:?}", sm.get_debug_id(), m.debug_id)));
    }
    if sm.get_token_count() as usize != m.tokens.len() {
        return Err(("finished-token-count".into(), format!("{} tokens, {} were added", sm.get_token_count(), m.tokens.len())));
    }
    for t in sm.tokens() {
        let tag = t.get_dst_line();
        let (_, s, nm, sl, sc, range) = m.tokens[tag as usize];
        let want_src = s.map(|i| want_sources[i as usize].as_str());
        let want_name = nm.map(|i| m.names[i as usize].as_str());
        if t.get_source() != want_src || t.get_name() != want_name || t.get_src_line() != sl || t.get_raw_token().src_col != sc || t.is_range() != range {
            return Err(("finished-token-resolution".into(), format!("token added with tag {tag} resolves to ({:?}, {:?}, {}, {}), it was added with ({want_src:?}, {want_name:?}, {sl}, {sc})", t.get_source(), t.get_name(), t.get_src_line(), t.get_raw_token().src_col)));
        }
    }
    ctx.bucket_if(m.root.as_ref().is_some_and(|r| !r.is_empty()) && !m.sources.is_empty(), "builder:finished-with-root");
    Ok(())
}

fn map_history(ctx: &mut Ctx, rng: &mut Rng, log: &mut Vec<Value>) -> Result<(), Fail> {
    let n_src = rng.range_usize(1, 4);
    let mut raw: Vec<String> = (0..n_src).map(|_| rng.pick(SOURCE_POOL).to_string()).collect();
    let mut contents: Vec<Option<String>> = vec![None; n_src];
    let mut root: Option<String> = None;
    let toks = (0..n_src as u32).map(|i| sourcemap::RawToken { dst_line: 0, dst_col: i, src_line: i, src_col: 0, src_id: i, name_id: !0, is_range: false }).collect();
    let mut sm = SourceMap::new(None, toks, vec![], raw.iter().map(|s| s.as_str().into()).collect(), None);
    log.push(json!({"op": "SourceMap::new", "sources": raw}));
    let n_ops = rng.range_usize(2, 25);
    let mut root_set_before_set_source = false;
    let mut set_source_after_root = false;
    for _ in 0..n_ops {
        match rng.below(8) {
            0 | 1 => {
                let r = match rng.below(5) {
                    0 => None,
                    1 => Some(String::new()),
                    _ => Some(rng.pick(ROOT_POOL).to_string()),
                };
                ctx.bucket(match &r {
                    None => "map:root-cleared",
                    Some(s) if s.is_empty() => "map:root-set-empty",
                    _ => "map:root-set",
                });
                root_set_before_set_source |= r.as_ref().is_some_and(|x| !x.is_empty());
                root = r.clone();
                ctx.op("SourceMap::set_source_root");
                sm.set_source_root(r.clone());
                log.push(json!({"op": "set_source_root", "root": r}));
            }
            2 | 3 => {
                let i = rng.below(n_src as u64) as u32;
                let v = *rng.pick(SOURCE_POOL);
                raw[i as usize] = v.to_string();
                if root.as_ref().is_some_and(|x| !x.is_empty()) {
                    set_source_after_root = true;
                    ctx.bucket("map:set_source-while-root-is-set");
                } else {
                    ctx.bucket("map:set_source-without-root");
                }
                ctx.op("SourceMap::set_source");
                sm.set_source(i, v);
                log.push(json!({"op": "set_source", "idx": i, "value": v}));
            }
            4 => {
                let i = rng.below(n_src as u64) as u32;
                let c = if rng.chance(1, 4) { None } else { Some(*rng.pick(CONTENT_POOL)) };
                contents[i as usize] = c.map(str::to_string);
                ctx.op("SourceMap::set_source_contents");
                sm.set_source_contents(i, c);
                log.push(json!({"op": "set_source_contents", "idx": i, "contents": c}));
            }
            _ => {
                let cycles = rng.range_usize(1, 3);
                for _ in 0..cycles {
                    let mut bytes = vec![];
                    ctx.op("to_writer");
                    sm.to_writer(&mut bytes).map_err(|e| ("serialise-error".to_string(), e.to_string()))?;
                    let doc: Value = serde_json::from_slice(&bytes).map_err(|e| ("invalid-json".to_string(), e.to_string()))?;
                    let written: Vec<String> = doc["sources"].as_array().map(|a| a.iter().map(|v| v.as_str().unwrap_or("<non-string>").to_string()).collect()).unwrap_or_default();
                    if written != raw {
                        return Err(("serialised-sources-not-raw".into(), format!("serialised sources {written:?}, raw names are {raw:?} (root {root:?})")));
                    }
                    let wroot = doc.get("sourceRoot").and_then(Value::as_str).map(str::to_string);
                    if wroot != root {
                        return Err(("serialised-root".into(), format!("serialised sourceRoot {wroot:?}, root is {root:?}")));
                    }
                    ctx.op("SourceMap::from_slice");
                    sm = SourceMap::from_slice(&bytes).map_err(|e| ("reload-error".to_string(), e.to_string()))?;
                    ctx.bucket_if(root.as_ref().is_some_and(|x| !x.is_empty()), "map:reload-with-root");
                }
                log.push(json!({"op": "to_writer+from_slice", "cycles": cycles}));
            }
        }
        // invariant after every prefix of the history
        for i in 0..n_src {
            let want = join_root(root.as_deref(), &raw[i]);
            if sm.get_source(i as u32) != Some(want.as_str()) {
                let sig = if sm.get_source(i as u32).is_some_and(|g| g.len() > want.len()) && root.is_some() { "source-prefixed-twice-or-stale" } else { "source-join-rule" };
                return Err((sig.into(), format!("get_source({i}) = {:?}; raw name {:?} joined with root {:?} is {want:?}", sm.get_source(i as u32), raw[i], root)));
            }
            if sm.get_source_contents(i as u32) != contents[i].as_deref() {
                return Err(("map-contents".into(), format!("get_source_contents({i}) = {:?}, model {:?}", sm.get_source_contents(i as u32), contents[i])));
            }
            // tokens resolve through the same table
            let t = sm.get_token(i).unwrap();
            if t.get_source() != Some(want.as_str()) {
                return Err(("token-source-join-rule".into(), format!("token {i} resolves to {:?}, expected {want:?}", t.get_source())));
            }
        }
        if sm.get_source_root() != root.as_deref() {
            return Err(("map-root".into(), format!("get_source_root = {:?}, model {root:?}", sm.get_source_root())));
        }
    }
    ctx.bucket_if(root_set_before_set_source && set_source_after_root, "map:root-set-then-set_source");
    if log.len() >= 5 {
        ctx.nontrivial(crate::monitor::hash_value(&json!(log)));
    }
    Ok(())
}

pub fn run(ctx: &mut Ctx) {
    let total = ctx.size(1_600_000, 8_000_000);
    for n in ctx.cases("histories", total) {
        let mut rng = ctx.begin("histories", n);
        ctx.eval();
        let mut log: Vec<Value> = vec![];
        let which = n % 2;
        let r = catch(|| if which == 0 { builder_history(ctx, &mut rng, &mut log) } else { map_history(ctx, &mut rng, &mut log) });
        ctx.bucket(if which == 0 { "history:builder" } else { "history:map-setters" });
        match r {
            Err(p) => ctx.violation(&panic_sig(&p), "histories", n, format!("history panicked: {p}"), json!({"history": log})),
            Ok(Err((sig, d))) => ctx.violation(&sig, "histories", n, d, json!({"history": log})),
            Ok(Ok(())) => {}
        }
        if n < 40 {
            ctx.sample(|| json!({"history": log}));
        }
    }
}
