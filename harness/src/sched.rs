//! Cooperative schedule controller (C16). Filled in with the C16 monitor.
