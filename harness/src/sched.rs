//! Cooperative schedule controller over real threads running the real code (C16).
//!
//! The crate's `verif_hooks` feature reports every lock attempt, lock release and atomic
//! operation of a `SourceView` to a callback. Controlled worker threads park inside that
//! callback; the controller (the calling thread) lets exactly one worker run from one yield
//! point to the next. A schedule is therefore a finite word over worker ids and can be replayed.
//!
//! Lock ownership is tracked from the Acquired/Released events so that a worker that wants a
//! lock held by a parked worker is never scheduled (it would block in the real mutex while the
//! holder cannot move: a deadlock the program does not have). If no parked worker is runnable
//! although some are unfinished, *that* is a deadlock of the code under test.

use std::cell::Cell;
use std::collections::HashMap;
use std::sync::{Arc, Condvar, Mutex, OnceLock};
use std::time::Duration;

use sourcemap::verif_hooks::{set_hook, Event};

#[derive(Clone, Copy, PartialEq, Eq, Debug)]
enum WStatus {
    NotStarted,
    Running,
    Parked,
    Finished,
}

struct WState {
    status: WStatus,
    wants_lock: Option<usize>,
    /// label of the yield point the worker is parked at
    at: &'static str,
    /// number of yield points passed
    steps: u32,
}

struct State {
    workers: Vec<WState>,
    turn: Option<usize>,
    held: HashMap<usize, usize>,
    active: bool,
}

struct Shared {
    state: Mutex<State>,
    cv: Condvar,
}

thread_local! {
    static WORKER_ID: Cell<Option<usize>> = const { Cell::new(None) };
}

fn shared() -> &'static Arc<Shared> {
    static S: OnceLock<Arc<Shared>> = OnceLock::new();
    S.get_or_init(|| {
        let s = Arc::new(Shared {
            state: Mutex::new(State { workers: vec![], turn: None, held: HashMap::new(), active: false }),
            cv: Condvar::new(),
        });
        let s2 = s.clone();
        set_hook(Some(Arc::new(move |ev| on_event(&s2, ev))));
        s
    })
}

fn lock_state(s: &Shared) -> std::sync::MutexGuard<'_, State> {
    s.state.lock().unwrap_or_else(|p| p.into_inner())
}

fn park(s: &Shared, me: usize, at: &'static str, wants: Option<usize>) {
    let mut st = lock_state(s);
    if !st.active {
        return;
    }
    {
        let w = &mut st.workers[me];
        w.status = WStatus::Parked;
        w.at = at;
        w.wants_lock = wants;
        w.steps += 1;
    }
    st.turn = None;
    s.cv.notify_all();
    while st.active && st.turn != Some(me) {
        st = s.cv.wait(st).unwrap_or_else(|p| p.into_inner());
    }
    if st.active {
        st.workers[me].status = WStatus::Running;
        st.workers[me].wants_lock = None;
    }
}

fn on_event(s: &Shared, ev: Event) {
    let me = match WORKER_ID.with(|w| w.get()) {
        Some(m) => m,
        None => return, // not a controlled thread
    };
    match ev {
        Event::Acquired(id) => {
            lock_state(s).held.insert(id, me);
        }
        Event::Released(id) => {
            lock_state(s).held.remove(&id);
        }
        Event::LockAttempt(id) => park(s, me, "lock", Some(id)),
        Event::AfterUnlock(_) => park(s, me, "unlocked", None),
        Event::Atomic(op, _) => park(
            s,
            me,
            match op {
                "load" => "atomic-load",
                "fetch_add" => "atomic-fetch_add",
                "store" => "atomic-store",
                _ => "atomic-other",
            },
            None,
        ),
    }
}

#[derive(Debug, Clone)]
pub struct Decision {
    /// runnable workers at this point, the previously running one first (if still runnable)
    pub options: Vec<usize>,
    pub chosen_index: usize,
    /// options[0] is the worker that ran last (choosing another index preempts it)
    pub prev_first: bool,
    /// yield-point label of every worker at this point (the "yield-point vector")
    pub vector: Vec<(&'static str, u32)>,
}

#[derive(Debug)]
pub enum Stuck {
    /// unfinished workers exist but none is runnable
    Deadlock(Vec<(&'static str, Option<usize>)>),
    /// the running worker neither parked nor finished within the wall-clock guard
    NoProgress,
    /// more yield points than any terminating execution of such a small scenario can have
    /// (a logical step bound, not a clock): some worker spins without ever finishing
    Livelock(usize),
}

pub struct RunOutcome<R> {
    pub decisions: Vec<Decision>,
    pub results: Vec<Option<R>>,
    pub stuck: Option<Stuck>,
    pub preemptions: u32,
    /// how often a worker that kept running without getting anywhere was switched away from
    pub fair_switches: u32,
}

/// Terminating executions of the scenarios used here (<= 4 threads x <= 3 calls on texts of <= 4
/// lines) pass about 1 300 yield points at most (evidence note max:yield-points-in-one-execution).
/// The bound is only meaningful because the default continuation is *fair* (see FAIR_AFTER): an
/// implementation that legitimately spin-waits for another thread gets that thread scheduled.
pub const MAX_STEPS: usize = 20_000;

/// After this many consecutive decisions for the same worker, the controller stops preferring it:
/// it is left out of the option list at that point, so that another runnable worker gets a step. A
/// worker of the scenarios used here lives for a few hundred yield points in total, so this only
/// ever happens to a worker that is spinning on something another worker has to release.
pub const FAIR_AFTER: usize = 500;

/// A worker whose last SPIN_WINDOW yield points (within one uninterrupted run) repeat with a
/// period of at most 4 labels is taken to be spin-waiting and is deprioritised in the same way.
/// Being wrong about this costs nothing but a non-preemptive switch: every schedule the controller
/// produces is a schedule the program can have.
pub const SPIN_WINDOW: usize = 24;

fn looks_like_spinning(h: &[&'static str]) -> bool {
    if h.len() < SPIN_WINDOW {
        return false;
    }
    let w = &h[h.len() - SPIN_WINDOW..];
    (1..=4).any(|p| (p..w.len()).all(|i| w[i] == w[i - p]))
}

pub enum Policy<'a> {
    /// follow these option indices, then always option 0 (= keep running the same worker)
    Prefix(&'a [usize]),
    /// pick uniformly at random among the options
    Random(&'a mut crate::rng::Rng),
}

/// Runs `bodies` (one closure per worker) on real threads under the controller.
pub fn run_controlled<R: Send + 'static>(bodies: Vec<Box<dyn FnOnce() -> R + Send + 'static>>, mut policy: Policy<'_>) -> RunOutcome<R> {
    let s = shared().clone();
    let n = bodies.len();
    {
        let mut st = lock_state(&s);
        st.workers = (0..n).map(|_| WState { status: WStatus::NotStarted, wants_lock: None, at: "start", steps: 0 }).collect();
        st.turn = None;
        st.held.clear();
        st.active = true;
    }
    let results: Arc<Mutex<Vec<Option<R>>>> = Arc::new(Mutex::new((0..n).map(|_| None).collect()));
    let mut handles = vec![];
    for (i, body) in bodies.into_iter().enumerate() {
        let s = s.clone();
        let results = results.clone();
        handles.push(std::thread::spawn(move || {
            WORKER_ID.with(|w| w.set(Some(i)));
            park(&s, i, "start", None);
            let r = body();
            results.lock().unwrap_or_else(|p| p.into_inner())[i] = Some(r);
            WORKER_ID.with(|w| w.set(None));
            let mut st = lock_state(&s);
            if st.active {
                st.workers[i].status = WStatus::Finished;
                st.workers[i].at = "finished";
                st.turn = None;
                s.cv.notify_all();
            }
        }));
    }
    let mut decisions: Vec<Decision> = vec![];
    let mut prev: Option<usize> = None;
    let mut consecutive = 0usize;
    let mut run_labels: Vec<&'static str> = vec![];
    let mut fair_switches = 0u32;
    let mut last_run: Vec<usize> = vec![0; n];
    let mut preemptions = 0u32;
    let mut stuck = None;
    loop {
        let mut st = lock_state(&s);
        // wait until nobody is running and everybody has reached its first park
        let mut waited = Duration::ZERO;
        loop {
            let busy = st.turn.is_some() || st.workers.iter().any(|w| matches!(w.status, WStatus::Running | WStatus::NotStarted));
            if !busy {
                break;
            }
            let (g, to) = s.cv.wait_timeout(st, Duration::from_millis(500)).unwrap_or_else(|p| p.into_inner());
            st = g;
            if to.timed_out() {
                waited += Duration::from_millis(500);
                if waited > Duration::from_secs(60) {
                    stuck = Some(Stuck::NoProgress);
                    break;
                }
            }
        }
        if stuck.is_some() {
            break;
        }
        if st.workers.iter().all(|w| w.status == WStatus::Finished) {
            break;
        }
        let mut options: Vec<usize> = (0..n)
            .filter(|&i| st.workers[i].status == WStatus::Parked && st.workers[i].wants_lock.map_or(true, |l| !st.held.contains_key(&l)))
            .collect();
        if options.is_empty() {
            stuck = Some(Stuck::Deadlock(st.workers.iter().map(|w| (w.at, w.wants_lock)).collect()));
            break;
        }
        if let Some(p) = prev {
            run_labels.push(st.workers[p].at);
        }
        let fair_switch = (consecutive >= FAIR_AFTER || looks_like_spinning(&run_labels)) && options.len() > 1 && prev.is_some_and(|p| options.contains(&p));
        let prev_runnable = !fair_switch && prev.is_some_and(|p| options.contains(&p));
        if let Some(p) = prev {
            if prev_runnable {
                options.retain(|&x| x != p);
                options.insert(0, p);
            } else if fair_switch {
                // not offered at all at this point: a schedule in which a spinning worker spins
                // once more is a stuttering variant of one in which it does not, and offering it
                // would let the depth-first search extend the spin by one step per schedule
                options.retain(|&x| x != p);
                // forced hand-over to the least recently scheduled worker, with no alternative
                // offered: with two spinners and one worker they both wait for, a fixed order
                // bounces between the spinners forever, and free alternatives let the depth-first
                // search build exactly that unfair schedule, one spin round deeper per run
                options.sort_by_key(|&x| last_run[x]);
                options.truncate(1);
                fair_switches += 1;
            }
        }
        let k = decisions.len();
        if k >= MAX_STEPS {
            stuck = Some(Stuck::Livelock(k));
            break;
        }
        let idx = match &mut policy {
            Policy::Prefix(p) => p.get(k).copied().unwrap_or(0).min(options.len() - 1),
            Policy::Random(r) => r.usize_below(options.len()),
        };
        let chosen = options[idx];
        if prev_runnable && Some(chosen) != prev {
            preemptions += 1;
        }
        decisions.push(Decision { options: options.clone(), chosen_index: idx, prev_first: prev_runnable, vector: st.workers.iter().map(|w| (w.at, w.steps)).collect() });
        if prev != Some(chosen) {
            run_labels.clear();
        }
        consecutive = if prev == Some(chosen) { consecutive + 1 } else { 1 };
        prev = Some(chosen);
        last_run[chosen] = k + 1;
        st.turn = Some(chosen);
        s.cv.notify_all();
    }
    // release everybody (also after a deadlock) and collect
    {
        let mut st = lock_state(&s);
        st.active = false;
        st.turn = None;
        s.cv.notify_all();
    }
    if stuck.is_none() {
        for h in handles {
            let _ = h.join();
        }
    } else {
        // workers may be blocked for real: give them a moment, then leave them detached
        std::thread::sleep(Duration::from_millis(200));
    }
    let results = std::mem::take(&mut *results.lock().unwrap_or_else(|p| p.into_inner()));
    RunOutcome { decisions, results, stuck, preemptions, fair_switches }
}

/// Depth-first enumeration of all schedules with at most `max_preemptions` preemptive context
/// switches. `run` executes one schedule for a given prefix of option indices.
pub struct Dfs {
    stack: Vec<(usize, usize, bool)>, // (chosen index, number of options, choosing index>0 is a preemption)
    started: bool,
    pub max_preemptions: u32,
}

impl Dfs {
    pub fn new(max_preemptions: u32) -> Dfs {
        Dfs { stack: vec![], started: false, max_preemptions }
    }

    /// Prefix to run next, or None when the space is exhausted.
    pub fn next_prefix(&mut self) -> Option<Vec<usize>> {
        if !self.started {
            self.started = true;
            return Some(vec![]);
        }
        // backtrack: deepest position with an untried option within the preemption budget
        while let Some((idx, nopts, preemptive_pos)) = self.stack.pop() {
            if idx + 1 < nopts {
                let used: u32 = self.stack.iter().filter(|(i, _, p)| *p && *i > 0).count() as u32;
                let cost = if preemptive_pos { 1 } else { 0 };
                if used + cost <= self.max_preemptions {
                    self.stack.push((idx + 1, nopts, preemptive_pos));
                    return Some(self.stack.iter().map(|x| x.0).collect());
                }
            }
        }
        None
    }

    /// Records what the run of the last prefix actually did.
    pub fn record(&mut self, decisions: &[Decision]) {
        let keep = self.stack.len().min(decisions.len());
        // positions < keep were dictated by the prefix; refresh their option counts
        for (k, d) in decisions.iter().enumerate().take(keep) {
            self.stack[k] = (d.chosen_index, d.options.len(), d.prev_first);
        }
        self.stack.truncate(keep);
        for d in decisions.iter().skip(keep) {
            self.stack.push((d.chosen_index, d.options.len(), d.prev_first));
        }
    }
}
