//! Small deterministic PRNG (splitmix64 seeding xoshiro256**). No external crates.

#[derive(Clone)]
pub struct Rng {
    s: [u64; 4],
}

pub fn splitmix64(state: &mut u64) -> u64 {
    *state = state.wrapping_add(0x9E37_79B9_7F4A_7C15);
    let mut z = *state;
    z = (z ^ (z >> 30)).wrapping_mul(0xBF58_476D_1CE4_E5B9);
    z = (z ^ (z >> 27)).wrapping_mul(0x94D0_49BB_1331_11EB);
    z ^ (z >> 31)
}

/// FNV-1a over bytes, used to fold strings (property ids) into seeds and to hash cases.
pub fn fnv1a(data: &[u8]) -> u64 {
    let mut h: u64 = 0xcbf2_9ce4_8422_2325;
    for &b in data {
        h ^= u64::from(b);
        h = h.wrapping_mul(0x0000_0100_0000_01B3);
    }
    h
}

pub fn mix(a: u64, b: u64) -> u64 {
    let mut s = a ^ b.rotate_left(32) ^ 0x5851_F42D_4C95_7F2D;
    let x = splitmix64(&mut s);
    x ^ splitmix64(&mut s).rotate_left(17)
}

impl Rng {
    pub fn new(seed: u64) -> Rng {
        let mut st = seed;
        let s = [
            splitmix64(&mut st),
            splitmix64(&mut st),
            splitmix64(&mut st),
            splitmix64(&mut st),
        ];
        Rng { s }
    }

    /// RNG for case `n` of property `prop` under `seed`: a pure function of its arguments.
    pub fn for_case(seed: u64, prop: &str, stream: u64, n: u64) -> Rng {
        Rng::new(mix(mix(mix(seed, fnv1a(prop.as_bytes())), stream), n))
    }

    pub fn next_u64(&mut self) -> u64 {
        let result = self.s[1].wrapping_mul(5).rotate_left(7).wrapping_mul(9);
        let t = self.s[1] << 17;
        self.s[2] ^= self.s[0];
        self.s[3] ^= self.s[1];
        self.s[1] ^= self.s[2];
        self.s[0] ^= self.s[3];
        self.s[2] ^= t;
        self.s[3] = self.s[3].rotate_left(45);
        result
    }

    pub fn next_u32(&mut self) -> u32 {
        (self.next_u64() >> 32) as u32
    }

    /// uniform in 0..n (n > 0)
    pub fn below(&mut self, n: u64) -> u64 {
        debug_assert!(n > 0);
        // multiply-shift; bias is irrelevant for workload generation
        ((u128::from(self.next_u64()) * u128::from(n)) >> 64) as u64
    }

    pub fn usize_below(&mut self, n: usize) -> usize {
        self.below(n as u64) as usize
    }

    /// uniform in lo..=hi
    pub fn range(&mut self, lo: u64, hi: u64) -> u64 {
        lo + self.below(hi - lo + 1)
    }

    pub fn range_usize(&mut self, lo: usize, hi: usize) -> usize {
        self.range(lo as u64, hi as u64) as usize
    }

    pub fn bool(&mut self) -> bool {
        self.next_u64() & 1 == 1
    }

    /// true with probability num/den
    pub fn chance(&mut self, num: u64, den: u64) -> bool {
        self.below(den) < num
    }

    pub fn pick<'a, T>(&mut self, xs: &'a [T]) -> &'a T {
        &xs[self.usize_below(xs.len())]
    }

    pub fn pick_str<'a>(&mut self, xs: &[&'a str]) -> &'a str {
        xs[self.usize_below(xs.len())]
    }

    pub fn shuffle<T>(&mut self, xs: &mut [T]) {
        for i in (1..xs.len()).rev() {
            let j = self.usize_below(i + 1);
            xs.swap(i, j);
        }
    }
}
