//! smv: runtime monitors for rust-sourcemap properties C01..C20.
//!
//! usage: smv <Cnn> --tier quick|thorough --seed N --shard I --nshards K --out FILE
//!            [--scale PCT] [--flavour NAME] [--only STREAM:CASE] [--verbose] [--mode MODE]
//!        smv merge-hashes FILE...
#![allow(dead_code, clippy::too_many_arguments, clippy::type_complexity)]

mod model;
mod monitor;
mod observe;
mod props;
mod reference;
mod rng;
mod sched;

use monitor::{Ctx, Tier};

fn main() {
    let args: Vec<String> = std::env::args().collect();
    if args.len() < 2 {
        eprintln!("usage: smv <Cnn> --tier .. --seed .. --shard .. --nshards .. --out ..");
        std::process::exit(64);
    }
    if args[1] == "merge-hashes" {
        merge_hashes(&args[2..]);
        return;
    }
    let prop = args[1].clone();
    let mut tier = Tier::Quick;
    let mut seed = 1u64;
    let mut shard = 0u64;
    let mut nshards = 1u64;
    let mut out = String::from("smv-out.json");
    let mut scale = 100u64;
    let mut flavour = String::from("checked");
    let mut only = None;
    let mut verbose = false;
    let mut mode = String::from("main");
    let mut i = 2;
    while i < args.len() {
        let a = args[i].as_str();
        let mut val = || {
            i += 1;
            args.get(i).cloned().unwrap_or_else(|| {
                eprintln!("missing value for {a}");
                std::process::exit(64)
            })
        };
        match a {
            "--tier" => {
                tier = if val() == "thorough" { Tier::Thorough } else { Tier::Quick }
            }
            "--seed" => seed = val().parse().expect("seed"),
            "--shard" => shard = val().parse().expect("shard"),
            "--nshards" => nshards = val().parse().expect("nshards"),
            "--out" => out = val(),
            "--scale" => scale = val().parse().expect("scale"),
            "--flavour" => flavour = val(),
            "--mode" => mode = val(),
            "--only" => {
                let v = val();
                let (s, n) = v.rsplit_once(':').expect("--only STREAM:CASE");
                only = Some((s.to_string(), n.parse().expect("case")));
            }
            "--verbose" => verbose = true,
            other => {
                eprintln!("unknown argument {other}");
                std::process::exit(64);
            }
        }
        i += 1;
    }
    monitor::install_panic_hook();
    let mut ctx = Ctx::new(&prop, tier, seed, shard, nshards, &out);
    ctx.scale_pct = scale;
    ctx.flavour = flavour;
    ctx.only = only;
    ctx.verbose = verbose;
    ctx.mode = mode;
    if !props::run(&mut ctx) {
        eprintln!("unknown property {prop}");
        std::process::exit(64);
    }
    ctx.finish();
}

fn merge_hashes(files: &[String]) {
    let mut all: Vec<u64> = vec![];
    for f in files {
        let bytes = std::fs::read(f).unwrap_or_default();
        for c in bytes.chunks_exact(8) {
            all.push(u64::from_le_bytes(c.try_into().unwrap()));
        }
    }
    all.sort_unstable();
    all.dedup();
    println!("{}", all.len());
}
