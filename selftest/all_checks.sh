#!/bin/bash
# usage: all_checks.sh <tier> <seed> [Cnn...]  - runs the registered checks on the unchanged tree
tier=$1; seed=$2; shift 2
cd "$(dirname "$(realpath "$0")")/.."
props="$@"
[ -z "$props" ] && props=$(python3 -c "import json;print(' '.join(c['property_id'] for c in json.load(open('MANIFEST.json'))['checks']))")
for p in $props; do
  s=$(date +%s)
  out=$(VERIF_SEED=$seed ./check $p $tier 2>&1); rc=$?
  e=$(( $(date +%s) - s ))
  echo "$p tier=$tier seed=$seed exit=$rc ${e}s $(echo "$out" | grep -E '^(VIOLATION|INCONCLUSIVE)' | head -3 | tr '\n' ' ')"
done
