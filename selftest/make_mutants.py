#!/usr/bin/env python3
"""Generates selftest/mutants/*.diff from (file, old, new) edits against a scratch worktree of /repo.
Each mutant is a change that breaks one property while the crate compiles and its tests pass
(verified separately by run_all.sh with MUTANT_RUN_REPO_TESTS=1)."""
import os, subprocess, sys
WT = "/tmp/wt-mut"
OUT = "/verif/selftest/mutants"
M = []
def m(name, props, file, old, new, count=1):
    M.append((name, props, file, old, new, count))

# ---- decoder / encoder (C01 C02 C03)
m("C02-src-line-per-line", "C02", "src/decoder.rs", "        dst_col = 0;\n\n        decode_rmi", "        dst_col = 0;\n        if line.len() > 4000 { src_line = 0; }\n\n        decode_rmi")
m("C02-root-joined-to-http", "C02 C13", "src/types.rs", "                || source.starts_with(\"http:\")\n", "")
m("C03-name-delta-after-sourceless", "C03 C01", "src/encoder.rs", "        if token.has_source() {\n            encode_vlq_diff(&mut rv, token.get_src_id(), prev_src_id);", "        if !token.has_source() {\n            prev_name_id = 0;\n        }\n        if token.has_source() {\n            encode_vlq_diff(&mut rv, token.get_src_id(), prev_src_id);")
m("C01-dedup-ignores-name", "C01 C03", "src/encoder.rs", "            if Some(&token) == sm.get_token(idx - 1).as_ref() {\n                continue;\n            }\n            rv.push(',');", "            if sm.get_token(idx - 1).is_some_and(|p| p.get_dst() == token.get_dst() && p.get_src() == token.get_src() && p.get_src_id() == token.get_src_id()) {\n                continue;\n            }\n            rv.push(',');")
m("C01-index-file-dropped-when-empty-sections", "C01", "src/encoder.rs", "            file: self.get_file().map(|x| Value::String(x.to_string())),\n            sources: None,", "            file: self.get_file().filter(|_| self.get_section_count() > 0).map(|x| Value::String(x.to_string())),\n            sources: None,")
# ---- lookup / ordering (C04)
m("C04-glb-no-walkback", "C04", "src/utils.rs",
  ["    for i in (0..idx).rev() {", "        if map(&slice[i]) == *key {\n            idx = i;\n        } else {\n            break;\n        }"],
  ["    let start = idx;\n    for i in (0..idx).rev() {", "        if i + 3 > start && map(&slice[i]) == *key {\n            idx = i;\n        } else {\n            break;\n        }"])
m("C04-adjust-no-resort", "C04 C10", "src/types.rs", "        self.tokens\n            .sort_unstable_by_key(|t| (t.dst_line, t.dst_col));\n    }\n}\n\nimpl SourceMapIndex", "        if self.tokens.len() < 12 {\n            self.tokens\n                .sort_unstable_by_key(|t| (t.dst_line, t.dst_col));\n        }\n    }\n}\n\nimpl SourceMapIndex")
m("C04-new-sorts-by-line-only-when-large", "C04", "src/types.rs", "        tokens.sort_unstable_by_key(|t| (t.dst_line, t.dst_col));\n        SourceMap {", "        if tokens.len() > 48 {\n            tokens.sort_by_key(|t| t.dst_line);\n        } else {\n            tokens.sort_unstable_by_key(|t| (t.dst_line, t.dst_col));\n        }\n        SourceMap {")
# ---- C06 / C11
m("C06-arity-check-weakened", "C06", "src/decoder.rs", "                if nums.len() != 4 && nums.len() != 5 {", "                if nums.len() < 4 {")
m("C06-name-range-off-by-one", "C06", "src/decoder.rs", "new_name_id >= names.len() as i64", "new_name_id > names.len() as i64")
m("C11-alphabet-last-two-swapped", "C11 C03", "src/vlq.rs", "0123456789+/\";", "0123456789/+\";")
m("C11-leftover-check-dropped", "C11 C06", "src/vlq.rs", "    if cur != 0 || shift != 0 {", "    if cur != 0 {")
# ---- C07
m("C07-range-offset-any-line", "C07", "src/types.rs", "        if token.is_range() && line == token.get_dst_line() {", "        if token.is_range() && line >= token.get_dst_line() && col >= token.get_dst_col() {")
m("C07-rmi-index-counts-duplicates", "C07", "src/encoder.rs", "        // exact duplicates of the previous token are not written to `mappings`\n        if idx > 0 && Some(&token) == sm.get_token(idx - 1).as_ref() {\n            continue;\n        }\n", "")
m("C07-decode-rmi-bit-order", "C07", "src/decoder.rs", "        val[6 * idx..6 * (idx + 1)].store_le::<u8>(byte);", "        val[6 * idx..6 * (idx + 1)].store_le::<u8>(if idx >= 3 { byte.reverse_bits() >> 2 } else { byte });")
# ---- C08
m("C08-column-shift-every-line", "C08", "src/types.rs", "                let dst_col = if token.get_dst_line() == 0 {\n                    token.get_dst_col().checked_add(off_col)", "                let dst_col = if token.get_dst_line() == 0 || off_line == 0 {\n                    token.get_dst_col().checked_add(off_col)")
m("C08-contents-overwritten", "C08", "src/types.rs", "                if token.get_source().is_some() && !builder.has_source_contents(raw.src_id) {\n                    builder.set_source_contents(\n                        raw.src_id,\n                        map.get_source_contents(token.get_src_id()),\n                    );\n                }\n                if map.ignore_list", "                if token.get_source().is_some() && map.get_source_contents(token.get_src_id()).is_some() {\n                    builder.set_source_contents(\n                        raw.src_id,\n                        map.get_source_contents(token.get_src_id()),\n                    );\n                }\n                if map.ignore_list")
m("C08-index-lookup-column-not-rebased", "C08", "src/types.rs", "            if line == off_line { col - off_col } else { col },", "            if line == off_line && off_line > 0 { col - off_col } else { col },")
# ---- C09
m("C09-contents-by-new-id", "C09", "src/types.rs", "                    .set_source_contents(raw.src_id, self.get_source_contents(token.get_src_id()));", "                    .set_source_contents(raw.src_id, self.get_source_contents(raw.src_id));")
m("C09-prefix-without-slash", "C09", "src/builder.rs", "                if !prefix.ends_with('/') {\n                    prefix.push('/');\n                }\n", "")
m("C09-hermes-fnmaps-not-remapped", "C09", "src/hermes.rs", "        if function_maps.len() >= mapping.len() {", "        if function_maps.len() > mapping.len() {")
# ---- C10
m("C10-no-clip-to-overlap-start", "C10", "src/types.rs", "                    std::cmp::max(original_range.start, adjustment_range.start);", "                    if original_range.value.is_range { original_range.start } else { std::cmp::max(original_range.start, adjustment_range.start) };")
m("C10-stretch-not-clipped-at-line-end", "C10", "src/types.rs", "                let end = std::cmp::min(next_start, (start.0, u32::MAX));", "                let end = if next_start.0 > start.0 + 1 { next_start } else { std::cmp::min(next_start, (start.0, u32::MAX)) };")
# ---- C12
m("C12-bare-cr-accepted-slice-only", "C12", "src/decoder.rs", "        if need_newline && byte != b'\\n' {\n            fail!(io::Error::new(\n                io::ErrorKind::InvalidData,\n                \"expected newline\"\n            ));\n        } else if", "        if need_newline && byte != b'\\n' {\n            return Ok(&slice[idx..]);\n        } else if")
m("C12-awaiting-newline-lost-across-reads", "C12", "src/decoder.rs", "            let read = self.r.read(local_buf)?;\n            if read == 0 {\n                return Ok(0);\n            }", "            let read = self.r.read(local_buf)?;\n            if read == 0 {\n                return Ok(0);\n            }\n            if self.header_state == HeaderState::AwaitingNewline {\n                self.header_state = HeaderState::Junk;\n            }")
# ---- C13
m("C13-set-source-stale-prefix", "C13", "src/types.rs", "        if let Some(sources_prefixed) = self.sources_prefixed.as_mut() {\n            // If sources_prefixed is `Some`, we must have a nonempty `source_root`.\n            sources_prefixed[idx as usize] =\n                Self::prefix_source(self.source_root.as_deref().unwrap(), value);\n        }", "        if let Some(sources_prefixed) = self.sources_prefixed.as_mut() {\n            if !value.starts_with('/') {\n                sources_prefixed[idx as usize] =\n                    Self::prefix_source(self.source_root.as_deref().unwrap(), value);\n            }\n        }")
m("C13-add-name-reuses-id-by-prefix", "C13", "src/builder.rs", "        let count = self.names.len() as u32;\n        let id = *self.name_map.entry(name.into()).or_insert(count);\n        if id == count {\n            self.names.push(name.into());\n        }\n        id", "        let count = self.names.len() as u32;\n        let id = *self.name_map.entry(name.into()).or_insert(count);\n        if id == count && !name.is_empty() {\n            self.names.push(name.into());\n        }\n        id")
# ---- C14
m("C14-line-plus-one-dropped", "C14", "src/hermes.rs", "&(u64::from(token.get_src_line()) + 1, token.get_src_col()),", "&(u64::from(token.get_src_line()) + u64::from(token.get_src_line() < 4096), token.get_src_col()),")
m("C14-column-reset-dropped", "C14", "src/hermes.rs", "                let mut column = 0;\n\n                for mapping in line_mapping.split(',') {", "                let mut column = mappings.last().map_or(0, |m: &HermesScopeOffset| if m.line > 64 { m.column } else { 0 });\n\n                for mapping in line_mapping.split(',') {")
m("C14-broken-fnmap-fails-decode", "C14", "src/hermes.rs", "                    parse_vlq_segment_into(mapping, &mut nums).ok()?;", "                    if parse_vlq_segment_into(mapping, &mut nums).is_err() {\n                        continue;\n                    }")
# ---- C15
m("C15-crlf-two-lines-at-chunk", "C15", "src/sourceview.rs", "                if rest[idx] == b'\\r' && rest.get(idx + 1) == Some(&b'\\n') {", "                if rest[idx] == b'\\r' && rest.get(idx + 1) == Some(&b'\\n') && idx + 2 < rest.len() {")
# ---- C17
m("C17-walk-limit-100", "C17", "src/sourceview.rs", "self.rev_token_iter(token).take(128).peekable()", "self.rev_token_iter(token).take(100).peekable()")
m("C17-cached-offset-bytes-for-units", "C17", "src/sourceview.rs", "                new_offset -= c.len_utf8();\n                idx += c.len_utf16();", "                new_offset -= c.len_utf8();\n                idx += c.len_utf8().min(2);")
# ---- C18
m("C18-trim-dropped", "C18", "src/detector.rs", "str::from_utf8(&line.as_bytes()[21..])?.trim().to_owned()", "str::from_utf8(&line.as_bytes()[21..])?.trim_start().to_owned()")
m("C18-contains-instead-of-starts-with", "C18", "src/detector.rs", "        if line.starts_with(\"//# sourceMappingURL=\") || line.starts_with(\"//@ sourceMappingURL=\") {", "        let line = line.trim_start().to_string();\n        if line.starts_with(\"//# sourceMappingURL=\") || line.starts_with(\"//@ sourceMappingURL=\") {")
m("C18-is-sourcemap-needs-names", "C18", "src/detector.rs", "            || rsm.names.is_some())\n            && rsm.mappings.is_some())\n        || rsm.sections.is_some()", "            || rsm.names.is_some())\n            && rsm.mappings.is_some())\n        || (rsm.sections.is_some() && rsm.file.is_some())")
m("C02-integer-name-as-empty", "C02", "src/decoder.rs", "            Value::Number(num) => num.to_string().into(),", "            Value::Number(num) if num.is_u64() => num.to_string().into(),")
m("C02-sections-not-sorted", "C02 C08", "src/decoder.rs", "    sections.sort_by_key(SourceMapSection::get_offset);", "    if sections.len() > 3 {\n        sections.sort_by_key(SourceMapSection::get_offset);\n    }")
m("C13-builder-contents-resize", "C13", "src/builder.rs", "        if self.sources.len() > self.source_contents.len() {\n            self.source_contents.resize(self.sources.len(), None);\n        }\n        self.source_contents[src_id as usize] = contents.map(Into::into);", "        if self.sources.len() > self.source_contents.len() {\n            self.source_contents = vec![None; self.sources.len()];\n        }\n        self.source_contents[src_id as usize] = contents.map(Into::into);")
m("C01-contents-dropped-when-first-null", "C01 C03", "src/encoder.rs", "                if let Some(contents) = contents {\n                    have_contents = true;", "                if let Some(contents) = contents {\n                    have_contents = have_contents || self.get_source_contents(0).is_some() || self.get_source_count() < 3;")
m("C18-data-url-std-no-pad", "C18 C12", "src/types.rs", "base64_simd::Base64::STANDARD.encode_to_boxed_str(&buf)", "base64_simd::Base64::STANDARD_NO_PAD.encode_to_boxed_str(&buf)")
# ---- C19
m("C19-dot-for-sibling-dir", "C19", "src/utils.rs", "    if rel_list.is_empty() {\n        \".\".into()", "    if rel_list.is_empty() || (rel_list.len() == 2 && rel_list[0] == \"..\" && target_path.last() == base_path.last()) {\n        \".\".into()")
# ---- C20
m("C20-length-minus-one-dropped", "C20", "src/ram_bundle.rs", "        let module_length = (module_entry.length - 1) as usize;", "        let module_length = if module_entry.length > 1 { (module_entry.length - 1) as usize } else { 1 };")
m("C20-id-check-off-by-one", "C20", "src/ram_bundle.rs", "        if id >= self.module_count {", "        if id > self.module_count {")
m("C20-magic-only-three-bytes", "C20", "src/ram_bundle.rs", "        self.magic == RAM_BUNDLE_MAGIC", "        self.magic & 0xFFFF_FF00 == RAM_BUNDLE_MAGIC & 0xFFFF_FF00")
# ---- C05
m("C05-with-capacity-from-input", "C05", "src/decoder.rs", "    let allocation_size = mappings.matches(&[',', ';'][..]).count() + 10;", "    let allocation_size = mappings.matches(&[',', ';'][..]).count() + 10 + rsm.ignore_list.as_ref().and_then(|l| l.first().copied()).unwrap_or(0) as usize;")
m("C05-unwrap-on-nonstring-file", "C05", "src/decoder.rs", "    let file = rsm.file.map(|val| match val {\n        Value::String(s) => s.into(),\n        _ => \"<invalid>\".into(),\n    });", "    let file = rsm.file.map(|val| match val {\n        Value::String(s) => s.into(),\n        Value::Array(a) => a[0].to_string().into(),\n        _ => \"<invalid>\".into(),\n    });")
m("C05-debug-id-not-normalised", "C05", "src/decoder.rs", "        .map(|id| debugid::DebugId::from_parts(id.uuid(), id.appendix()));", "        ;")
m("C05-flatten-unchecked-again", "C05", "src/types.rs", "                let dst_line = token.get_dst_line().checked_add(off_line);", "                let dst_line = Some(token.get_dst_line() + off_line);")

os.makedirs(OUT, exist_ok=True)
ok = 0
for f in os.listdir(OUT):
    if f.endswith(".diff") and not f.startswith("C16-"):
        os.remove(os.path.join(OUT, f))
for name, props, file, old, new, count in M:
    path = os.path.join(WT, file)
    src = open(path).read()
    olds, news = (old, new) if isinstance(old, list) else ([old], [new])
    bad = [o for o in olds if src.count(o) != count]
    if bad:
        print(f"!! {name}: pattern occurs {src.count(bad[0])} times in {file}")
        continue
    for o, n_ in zip(olds, news):
        src = src.replace(o, n_)
    open(path, "w").write(src)
    d = subprocess.run(["git", "-C", WT, "diff", "--", file], stdout=subprocess.PIPE, text=True).stdout
    subprocess.run(["git", "-C", WT, "checkout", "--", file])
    if name in ("C16-revert-fix", "C16-half-repair"):
        continue
    open(os.path.join(OUT, name + ".diff"), "w").write(d)
    ok += 1
open(os.path.join(OUT, "INDEX.tsv"), "w").write("".join(f"{n}\t{p}\n" for n, p, *_ in M) + "C16-revert-fix\tC16\nC16-half-repair\tC16\n")
print(ok, "mutants written")
