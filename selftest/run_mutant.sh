#!/bin/bash
# usage: run_mutant.sh <patch.diff> <tier> <Cnn> [Cnn...]
# Applies a mutant to /repo, runs the named checks, prints one line per check, always reverts.
patch="$(realpath "$1")"; tier="$2"; shift 2
cd /repo || exit 2
if ! git diff --quiet; then echo "repo working tree not clean"; exit 2; fi
git apply "$patch" || { echo "patch does not apply: $patch"; exit 2; }
trap 'git -C /repo checkout -- . ' EXIT
if [ -n "$MUTANT_RUN_REPO_TESTS" ]; then /verif/lib/repo_test.sh | tail -1; fi
for p in "$@"; do
  out=$(cd /verif && VERIF_SEED=${VERIF_SEED:-1} ./check "$p" "$tier" 2>&1); rc=$?
  sigs=$(echo "$out" | grep -E "^  signature=" | sed 's/ (about.*//' | sort -u | head -5 | tr '\n' ' ')
  echo "MUTANT $(basename "$patch") check=$p tier=$tier exit=$rc $sigs"
done
