#!/usr/bin/env python3
"""Runs every mutant (selftest/mutants/*.diff, seeded/*/patch.diff) against its target checks, in
parallel, on scratch worktrees of /repo (never on /repo itself). For each mutant: the crate must
compile and the repository's own suite must pass with the change (otherwise the mutant is invalid
and only reported as such); then the target checks run at the given tier. Appends to
selftest/results.tsv:  mutant  check  tier  seed  suite  exit  signatures

usage: run_all.py [--tier quick] [--workers 4] [--seed 1] [--only substring] [--seeded]
"""
import argparse, glob, json, os, queue, re, shutil, subprocess, sys, threading, time

ap = argparse.ArgumentParser()
ap.add_argument("--tier", default="quick")
ap.add_argument("--workers", type=int, default=4)
ap.add_argument("--seed", default="1")
ap.add_argument("--only", default="")
ap.add_argument("--seeded", action="store_true")
ap.add_argument("--skip-suite", action="store_true")
ap.add_argument("--controls", action="store_true", help="run selftest/controls/*.diff: behaviour-preserving changes on which every check must stay silent")
ap.add_argument("--only-re", default="", help="regex the name must match")
ap.add_argument("--skip", default="", help="comma separated substrings to leave out")
args = ap.parse_args()

ROOT = "/verif"
jobs = queue.Queue()
index = {}
for line in open(f"{ROOT}/selftest/mutants/INDEX.tsv"):
    n, p = line.rstrip("\n").split("\t")
    index[n] = p.split()
if args.seeded:
    for meta in sorted(glob.glob(f"{ROOT}/seeded/*/meta.json")):
        d = os.path.dirname(meta)
        mj = json.load(open(meta))
        name = "seeded:" + os.path.basename(d)
        if args.only in name and re.search(args.only_re, name) and not any(x and x in name for x in args.skip.split(",")):
            jobs.put((name, os.path.join(d, "patch.diff"), mj.get("checks") or [mj["property"]]))
elif args.controls:
    for f in sorted(glob.glob(f"{ROOT}/selftest/controls/*.diff")):
        name = "control:" + os.path.basename(f)[:-5]
        if args.only in name and re.search(args.only_re, name):
            meta = f[:-5] + ".json"
            checks = json.load(open(meta))["checks"] if os.path.exists(meta) else [os.path.basename(f).split("-")[0]]
            jobs.put((name, f, checks))
else:
    for f in sorted(glob.glob(f"{ROOT}/selftest/mutants/*.diff")):
        name = os.path.basename(f)[:-5]
        if args.only in name:
            jobs.put((name, f, index.get(name, [name.split("-")[0]])))

lock = threading.Lock()
results = open(f"{ROOT}/selftest/results.tsv", "a")

def sh(cmd, **kw):
    return subprocess.run(cmd, stdout=subprocess.PIPE, stderr=subprocess.STDOUT, text=True, **kw)

def worker(k):
    wt = f"/tmp/mut-wt-{os.getpid()}-{k}"
    base = f"/tmp/mut-h-{os.getpid()}-{k}"
    sh(["git", "-C", "/repo", "worktree", "remove", "--force", wt])
    shutil.rmtree(base, ignore_errors=True)
    r = sh(["git", "-C", "/repo", "worktree", "add", "--detach", wt, "HEAD"])
    shutil.copy("/repo/Cargo.lock", wt)
    os.makedirs(base)
    sh(["rsync", "-a", "--exclude", "target*", f"{ROOT}/harness", base + "/"])
    ct = f"{base}/harness/Cargo.toml"
    txt = open(ct).read().replace('path = "/repo"', f'path = "{wt}"')
    open(ct, "w").write(txt)
    env = dict(os.environ, SMV_HARNESS_DIR=f"{base}/harness", SMV_EVIDENCE_DIR=f"{base}/evidence", VERIF_SEED=args.seed,
               CARGO_NET_OFFLINE="true")
    while True:
        try:
            name, patch, checks = jobs.get_nowait()
        except queue.Empty:
            break
        a = sh(["git", "-C", wt, "apply", patch])
        if a.returncode != 0:
            with lock:
                print(f"{name}: patch does not apply: {a.stdout.strip()[:200]}", flush=True)
                results.write(f"{name}\t-\t{args.tier}\t{args.seed}\tPATCH-FAILED\t-\t-\n"); results.flush()
            continue
        suite = "skipped"
        if not args.skip_suite:
            t = sh(["cargo", "test", "--offline", "--no-fail-fast"], cwd=wt, env=dict(env, CARGO_TARGET_DIR=f"{wt}/target"))
            lines = [l for l in t.stdout.splitlines() if l.startswith("test result")]
            passed = sum(int(l.split()[3]) for l in lines)
            failed = sum(int(l.split()[5]) for l in lines)
            compile_err = "error: could not compile" in t.stdout or "error[" in t.stdout
            suite = "compile-error" if compile_err else f"{passed}p/{failed}f"
        for c in checks:
            if suite not in ("skipped",) and not suite.endswith("/0f"):
                row = (name, c, args.tier, args.seed, suite, "-", "invalid mutant (suite does not pass)")
            else:
                t0 = time.time()
                r = sh([f"{ROOT}/check", c, args.tier], cwd=ROOT, env=env)
                sigs = sorted({l.strip().split("signature=")[1].split(" (about")[0] for l in r.stdout.splitlines() if "signature=" in l})
                known = sum(1 for l in r.stdout.splitlines() if l.startswith("KNOWN-FINDING"))
                inconc = [l for l in r.stdout.splitlines() if l.startswith("INCONCLUSIVE")]
                if inconc and "build of flavour" in inconc[0]:
                    open(f"/tmp/mut-build-fail-{name}.log", "w").write(r.stdout)
                row = (name, c, args.tier, args.seed, suite, str(r.returncode), "; ".join(sigs)[:300] + (f" [known-finding lines: {known}]" if known else "") + (" " + inconc[0][:160] if inconc else "") + f" ({time.time()-t0:.0f}s)")
            with lock:
                print("\t".join(row), flush=True)
                results.write("\t".join(row) + "\n"); results.flush()
        sh(["git", "-C", wt, "checkout", "--", "."])
        sh(["git", "-C", wt, "clean", "-fdq", "--", "src", "tests"])
    sh(["git", "-C", "/repo", "worktree", "remove", "--force", wt])
    shutil.rmtree(base, ignore_errors=True)

ths = [threading.Thread(target=worker, args=(k,)) for k in range(args.workers)]
for t in ths: t.start()
for t in ths: t.join()
