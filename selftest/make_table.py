#!/usr/bin/env python3
"""Rewrites the results table of DESIGN.md section 8 from selftest/results.tsv and seeded/*/meta.json."""
import collections, glob, json, os, re
ROOT = "/verif"
rows = collections.OrderedDict()
invalid_names = set()
for line in open(f"{ROOT}/selftest/results.tsv"):
    f = line.rstrip("\n").split("\t")
    if len(f) < 7:
        continue
    name, check, tier, seed, suite, rc, sigs = f[:7]
    if rc == "-":
        invalid_names.add(name)  # the repository's own suite notices this change: never a valid mutant, also in later --skip-suite runs
    if name in invalid_names:
        suite_seen = rows.get((name, check), (0, 0, suite))[2]
        rows[(name, check)] = (tier, seed, suite if rc == "-" else suite_seen, "-", "invalid mutant (suite does not pass)")
        continue
    rows[(name, check)] = (tier, seed, suite, rc, re.sub(r" \(\d+s\)$", "", sigs).strip())
needs = {}
for m in glob.glob(f"{ROOT}/seeded/*/meta.json"):
    d = json.load(open(m))
    needs["seeded:" + d["id"]] = d["needs_to_manifest"]
out = []
out.append("| change | check | suite with change | caught (exit) | signatures reported |")
out.append("|---|---|---|---|---|")
caught = missed = invalid = 0
ctl = []
ctl_silent = ctl_alarm = ctl_other = 0
for (name, check), (tier, seed, suite, rc, sigs) in sorted(rows.items(), key=lambda kv: (not kv[0][0].startswith("seeded:"), kv[0])):
    if name.startswith("control:"):
        if rc == "0":
            ctl_silent += 1
            v = "silent (exit 0)"
        elif rc == "1":
            ctl_alarm += 1
            v = "**false alarm (exit 1)**"
        else:
            ctl_other += 1
            v = f"inconclusive (exit {rc})"
        ctl.append(f"| `{name}` | {check} | {suite} | {v} | {sigs[:160]} |")
        continue
    if rc == "-":
        invalid += 1
        verdict = "n/a (not a valid mutant: the repository's own suite notices it)"
    elif rc == "1":
        caught += 1
        verdict = f"yes ({tier}, seed {seed})"
    elif rc == "0":
        missed += 1
        verdict = "**no**"
    else:
        verdict = f"inconclusive (exit {rc})"
    out.append(f"| `{name}` | {check} | {suite} | {verdict} | {sigs[:160]} |")
summary = f"Last sweep: {caught} (change, check) pairs caught, {missed} missed, {invalid} rows dropped as invalid mutants."
ctl_text = ""
if ctl:
    ctl_text = (f"\n\nNegative controls (behaviour-preserving changes, every check must stay silent): {ctl_silent} (change, check) pairs silent, "
                f"{ctl_alarm} false alarms, {ctl_other} inconclusive.\n\n| change | check | suite with change | verdict | notes |\n|---|---|---|---|---|\n" + "\n".join(ctl))
text = summary + "\n\n" + "\n".join(out) + ctl_text + "\n\nWhat each seeded change needs in order to manifest:\n\n" + "\n".join(f"* `{k}` - {v}" for k, v in sorted(needs.items()))
p = f"{ROOT}/DESIGN.md"
s = open(p).read()
if "RESULTS_TABLE_PLACEHOLDER" in s:
    s = s.replace("RESULTS_TABLE_PLACEHOLDER", "<!-- results:begin -->\n" + text + "\n<!-- results:end -->")
else:
    s = re.sub(r"<!-- results:begin -->.*?<!-- results:end -->", lambda m: "<!-- results:begin -->\n" + text + "\n<!-- results:end -->", s, flags=re.S)
open(p, "w").write(s)
print(summary)
