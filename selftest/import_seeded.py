#!/usr/bin/env python3
"""import_seeded.py <agent-worktree> <property> <id> "<what it needs to manifest>"
Re-verifies an independently written breaking change in a fresh scratch worktree of /repo
(compiles with default features and ram_bundle, the repository's suite passes with it, the
demonstration fails with it and passes without it) and stores it under /verif/seeded/<id>/."""
import json, os, shutil, subprocess, sys
wt_agent, prop, sid, needs = sys.argv[1:5]
dst = f"/verif/seeded/{sid}"
os.makedirs(dst, exist_ok=True)
for f in ("patch.diff", "demo.rs", "notes.md"):
    shutil.copy(os.path.join(wt_agent, "out", f), os.path.join(dst, f))
wt = f"/tmp/verify-{sid}"
def sh(cmd, **kw):
    return subprocess.run(cmd, stdout=subprocess.PIPE, stderr=subprocess.STDOUT, text=True, **kw)
sh(["git", "-C", "/repo", "worktree", "remove", "--force", wt])
sh(["git", "-C", "/repo", "worktree", "add", "--detach", wt, "HEAD"])
shutil.copy("/repo/Cargo.lock", wt)
env = dict(os.environ, CARGO_TARGET_DIR=f"{wt}/target", CARGO_NET_OFFLINE="true")
def suite(features=None):
    cmd = ["cargo", "test", "--offline", "--no-fail-fast"] + (["--features", features] if features else [])
    t = sh(cmd, cwd=wt, env=env)
    lines = [l for l in t.stdout.splitlines() if l.startswith("test result")]
    return ("compile-error" if ("could not compile" in t.stdout) else f"{sum(int(l.split()[3]) for l in lines)} passed / {sum(int(l.split()[5]) for l in lines)} failed")
def demo():
    t = sh(["cargo", "test", "--offline", "--features", "ram_bundle", "--test", "demo"], cwd=wt, env=env)
    lines = [l for l in t.stdout.splitlines() if l.startswith("test result")]
    return lines[-1] if lines else ("compile-error" if "could not compile" in t.stdout else "no result")
res = {}
a = sh(["git", "-C", wt, "apply", f"{dst}/patch.diff"])
res["patch_applies_to_repo_HEAD"] = a.returncode == 0
res["repo_HEAD"] = sh(["git", "-C", "/repo", "rev-parse", "--short", "HEAD"]).stdout.strip()
res["suite_with_change"] = suite()
res["suite_with_change_ram_bundle"] = suite("ram_bundle")
shutil.copy(f"{dst}/demo.rs", f"{wt}/tests/demo.rs")
res["demo_with_change"] = demo()
sh(["git", "-C", wt, "checkout", "--", "src"])
res["demo_without_change"] = demo()
sh(["git", "-C", "/repo", "worktree", "remove", "--force", wt])
ok = res["patch_applies_to_repo_HEAD"] and res["suite_with_change"].endswith("/ 0 failed") and res["suite_with_change_ram_bundle"].endswith("/ 0 failed") \
     and "FAILED" in res["demo_with_change"] and res["demo_without_change"].startswith("test result: ok")
meta = {"id": sid, "property": prop, "checks": [prop], "origin": "fresh sub-agent given only the property text and a scratch worktree of /repo",
        "needs_to_manifest": needs, "verified_by_me": res, "kept": ok,
        "how_verified": "selftest/import_seeded.py: fresh worktree of /repo HEAD, git apply patch.diff, cargo test (default and --features ram_bundle) must be all green, tests/demo.rs must fail with the patch and pass after git checkout -- src"}
json.dump(meta, open(f"{dst}/meta.json", "w"), indent=1)
print(sid, "KEPT" if ok else "REJECTED", json.dumps(res))
