#!/bin/bash
# Runs the repository's own suite with the verif_hooks guard OFF and checks the totals.
cd /repo || exit 2
out=$(cargo test --workspace --no-fail-fast --offline 2>&1)
echo "$out" | grep -E "^test result" | awk '{s+=$4; f+=$6} END {print s" passed "f" failed"}'
if echo "$out" | grep -qE "^error|FAILED|could not compile"; then echo "REPO TESTS NOT OK"; echo "$out" | grep -E "^error|FAILED|panicked" | head; exit 1; fi
p=$(echo "$out" | grep -E "^test result" | awk '{s+=$4} END {print s}')
[ "$p" -ge 55 ] || { echo "REPO TESTS: only $p passed"; exit 1; }
echo "REPO TESTS OK"
