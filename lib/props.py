"""Per-property configuration of the check driver.

steps: executed in order; each names a build flavour, a monitor mode, shard count and workload
scale. A step with flavour 'checked' is the deciding run (overflow checks + debug assertions on);
sanitizer steps repeat a scaled-down workload under one sanitizer family each.
"""

MAIN = {"name": "main", "flavour": "checked"}


def fast(scale=100, tiers=("thorough",)):
    return {"name": "fast", "flavour": "fast", "scale": scale, "tiers": tiers, "count_distinct": False}


def asan(scale=10, tiers=("thorough",)):
    return {"name": "asan", "flavour": "asan", "scale": scale, "tiers": tiers}


def miri(mode="miri", nshards=16, tiers=("quick", "thorough"), flags="-Zmiri-disable-isolation", scale=100, timeout=3000):
    return {"name": "miri", "flavour": "miri", "mode": mode, "nshards": nshards, "tiers": tiers,
            "miriflags": flags, "scale": scale, "timeout": timeout}


def valgrind(mode="valgrind", nshards=16, scale=100, tiers=("thorough",)):
    return {"name": "valgrind", "flavour": "plain", "valgrind": True, "mode": mode, "nshards": nshards,
            "scale": scale, "tiers": tiers}


COMMON_ASSUME = [
    "rustc/std and serde_json behave as documented",
    "the independent references in /verif/harness/src/reference are correct (each is self-checked at start-up)",
    "verdict covers only the executions produced by this run",
]

PROPS = {
    "C11": {
        "level": "exploration",
        "rule": "integers: every value of the enumerated window as a singleton list (distinct by construction, non-trivial when |v| >= 16, i.e. needs >= 2 digits), plus hashed random lists/strings; strings: every base64 string up to the stated length (non-trivial when length >= 2) plus hashed random longer ones; distinct = enumerated members + distinct hashes",
        "exhaustive_claim": True,
        "steps": [MAIN, fast()],
        "required_buckets": {"all": ["err:unterminated", "err:empty", "err:14-digits", "13-digit-value", "33-bit-or-more",
                                     "5-bit-boundary", "sign-at-0/1", "value-with-13-digits", "value-with-14-digits",
                                     "table:alphabet-byte"]},
        "assumptions": COMMON_ASSUME + ["third-party vlq 0.5.1 crate is used only to cross-check the reference encoder/decoder"],
    },
    "C19": {
        "level": "exploration",
        "rule": "ordered pairs (base, target) of paths over {a,b,c} up to the stated depth, absolute and relative, enumerated exhaustively, plus random pairs with mixed separators; non-trivial = base directory and target share >= 1 leading component; distinct by hash of the pair",
        "exhaustive_claim": True,
        "steps": [MAIN],
        "required_buckets": {"all": ["climb=0", "climb=1", "climb=2", "remain=0", "remain=1", "remain=2", "remain=3",
                                     "no-shared-prefix", "target-is-base-dir"]},
        "assumptions": COMMON_ASSUME,
    },
}

PROPS.update({
    "C01": {
        "level": "exploration",
        "rule": "random well-formed maps (regular via raw constructor / builder / decoded reference document, Hermes, index maps nested up to 3 deep) driven through write -> read -> observe; non-trivial = map with >= 2 tokens or index with >= 1 section; distinct by hash of the abstract model",
        "steps": [MAIN, asan(scale=5)],
        "required_buckets": {"all": ["built:regular:raw-constructor", "built:regular:builder", "built:regular:decoded", "built:hermes:decoded",
                                     "built:index:constructed", "built:index:decoded", "nested-index", "section-with-url-only",
                                     "map-with-sourceless-token", "map-with-exact-duplicate", "map-with-multi-line-gap", "map-with-root",
                                     "map-with-partial-contents", "map-with-debug-id", "map-with-ignore-list",
                                     "map-with-distinct-tokens-at-one-position", "map-with-unreferenced-source",
                                     "map-with-duplicate-source-strings"]},
        "assumptions": COMMON_ASSUME + ["observational equality is defined through public accessors only (harness/src/observe.rs)"],
    },
    "C02": {
        "level": "exploration",
        "rule": "documents written by the independent encoder from an abstract model plus presentation (segment order, empty lines/segments, arity 1/4/5, key order, optional keys, null sources, integer names, both debug-id spellings, junk header; regular / Hermes / index); non-trivial = at least one non-empty segment or embedded section map; distinct by hash of the document text",
        "steps": [MAIN, asan(scale=5), miri(tiers=("thorough",), nshards=16)],
        "required_buckets": {"all": ["negative-delta:generated-column", "negative-delta:source-index", "negative-delta:original-line",
                                     "negative-delta:original-column", "negative-delta:name-index", "empty-line", "empty-segment",
                                     "arity-1", "arity-4", "arity-5", "key-absent:sources", "key-absent:names", "key-absent:mappings",
                                     "key-absent:file", "both-debug-ids", "only-debugId", "null-source", "integer-name", "junk-header",
                                     "kind:Regular", "kind:Hermes", "kind:Index", "root(plain)xsource(relative)", "root(plain)xsource(absolute)",
                                     "root(slash)xsource(relative)", "root(empty)xsource(relative)", "from_slice-rejects-other-kind"]},
        "assumptions": COMMON_ASSUME,
    },
    "C03": {
        "level": "exploration",
        "rule": "random well-formed maps from every producer (constructors, builder, decoding, rewrite under random options, flatten, adjust_mappings; index maps nested up to 3); serialised output parsed by serde_json and its mappings read by the strict reference decoder; non-trivial = >= 2 tokens (or >= 1 section); distinct by hash of the generating model",
        "steps": [MAIN, asan(scale=5)],
        "required_buckets": {"all": ["producer:rewrite", "producer:flatten", "producer:adjust_mappings", "producer:regular:builder",
                                     "producer:regular:decoded", "producer:regular:raw-constructor", "producer:hermes:decoded",
                                     "producer:index:constructed", "index-with-nested-index", "map-with-every-optional-absent",
                                     "map-with-every-optional-present"]},
        "assumptions": COMMON_ASSUME,
    },
    "C04": {
        "level": "exploration",
        "rule": "maps with heavy position duplication, built in shuffled order by both constructors; query sweep = every token position +-1 column, column 0 / u32::MAX on every line with or without tokens, lines before/after; histories = chains of 1..8 map-producing operations with the invariants re-checked after each; exhaustive sub-space: every insertion sequence of <= 4 tokens on a 2x3 grid x all grid queries; non-trivial = map with >= 2 tokens; distinct by model hash / enumeration",
        "exhaustive_claim": True,
        "steps": [MAIN, fast(), asan(scale=10)],
        "required_buckets": {"all": ["lookup:exact-hit-on-position-with>=3-copies", "lookup:before-first-token->None", "lookup:from-later-line",
                                     "lookup:u32::MAX-query", "lookup:inexact-hit", "producer:rewrite", "producer:flatten",
                                     "producer:adjust_mappings", "producer:to_writer+decode_slice", "producer:builder",
                                     "producer:SourceMap::new", "empty-map", "single-token-map"]},
        "assumptions": COMMON_ASSUME + ["the oracle is a linear scan over the map's own iteration order"],
    },
    "C06": {
        "level": "fault_enumeration",
        "rule": "well-formed base documents (arrays of size 0..4) x single faults enumerated at every site: arity 2/3/6/7 per segment, continuation bit on the last digit per segment, 14/15/20-digit value per value, source/name index pushed to len, len+1, 2^32-1, -1, -len-1, 2^32+k per reference, one foreign byte at every offset of the mappings string (all byte values possible in UTF-8), plus random 2-3 fault combinations; a faulted string counts only if the strict reference decoder rejects it; distinct by hash of (mappings, array sizes)",
        "steps": [MAIN, asan(scale=10)],
        "required_buckets": {"all": ["fault:arity-2@First", "fault:arity-3@Middle", "fault:arity-6@Last", "fault:arity-7@Only",
                                     "fault:continuation-on-last-digit@Last", "fault:value-with-14-digits@Middle",
                                     "fault:value-with-20-digits@First", "fault:source-index=len:first-use@First",
                                     "fault:source-index=-1:later-use@Middle", "fault:source-index=2^32-1:after-decrease@Middle",
                                     "fault:source-index=2^32+k:later-use@Last", "fault:name-index=len@Last", "fault:name-index=-1@Middle",
                                     "fault:foreign-ascii@segment-start", "fault:foreign-ascii@segment-middle", "fault:foreign-ascii@segment-end",
                                     "fault:foreign-byte>=0x80@segment-middle", "fault:foreign-byte>=0x80@alone-in-segment",
                                     "fault:reference-into-empty-sources", "fault:reference-into-empty-names", "fault:combination"]},
        "assumptions": COMMON_ASSUME + ["byte values 0xC0, 0xC1, 0xF5..0xFF cannot occur in a Rust str / valid JSON string and are not covered"],
    },
    "C07": {
        "level": "exploration",
        "rule": "maps with range flags: every flag subset of every shape with <= 3 lines, <= 6 tokens per line, <= 8 (quick) / 10 (thorough) tokens; explicit shapes (first/last on line, index 15..100, all set, after k duplicates / k same-position tokens, columns near u32::MAX); random maps; each built three ways, serialised, re-read, and swept with lookups on the token's line, after it and from later lines; non-trivial = >= 1 range token; distinct by model hash",
        "exhaustive_claim": True,
        "steps": [MAIN, fast(scale=50), asan(scale=10),
                  miri(flags="-Zmiri-disable-isolation -Zmiri-tree-borrows", tiers=("thorough",))],
        "required_buckets": {"all": ["range:first-on-line(line>0)", "range:first-on-line(line=0)", "range:last-on-line",
                                     "range:index>=16-with-no-earlier-flag-on-line", "range:exact-duplicate-of-predecessor",
                                     "range:after-distinct-token-at-same-position", "lookup:inside-range-same-line",
                                     "lookup:range-token-from-later-line(col<dst_col)", "lookup:range-token-from-later-line(col>=dst_col)",
                                     "lookup:non-range-token", "built:decoded-reference-document"]},
        "assumptions": COMMON_ASSUME + ["bit i of a line's rangeMappings refers to the i-th mapping written for that line (tc39 proposal)",
                                         "Miri shards run under Tree Borrows because Stacked Borrows flags bitvec 1.1.1 internals (dependency, not the crate)"],
    },
})
