"""Per-property configuration of the check driver.

steps: executed in order; each names a build flavour, a monitor mode, shard count and workload
scale. A step with flavour 'checked' is the deciding run (overflow checks + debug assertions on);
sanitizer steps repeat a scaled-down workload under one sanitizer family each.
"""

MAIN = {"name": "main", "flavour": "checked"}


def fast(scale=100, tiers=("thorough",)):
    return {"name": "fast", "flavour": "fast", "scale": scale, "tiers": tiers, "count_distinct": False}


def asan(scale=10, tiers=("thorough",)):
    return {"name": "asan", "flavour": "asan", "scale": scale, "tiers": tiers}


def miri(mode="miri", nshards=16, tiers=("quick", "thorough"), flags="-Zmiri-disable-isolation", scale=100, timeout=1500):
    return {"name": "miri", "flavour": "miri", "mode": mode, "nshards": nshards, "tiers": tiers,
            "miriflags": flags, "scale": scale, "timeout": timeout}


def valgrind(mode="valgrind", nshards=16, scale=100, tiers=("thorough",)):
    return {"name": "valgrind", "flavour": "plain", "valgrind": True, "mode": mode, "nshards": nshards,
            "scale": scale, "tiers": tiers}


COMMON_ASSUME = [
    "rustc/std and serde_json behave as documented",
    "the independent references in /verif/harness/src/reference are correct (each is self-checked at start-up)",
    "verdict covers only the executions produced by this run",
]

PROPS = {
    "C11": {
        "level": "exploration",
        "rule": "integers: every value of the enumerated window as a singleton list (distinct by construction, non-trivial when |v| >= 16, i.e. needs >= 2 digits), plus hashed random lists/strings; strings: every base64 string up to the stated length (non-trivial when length >= 2) plus hashed random longer ones; distinct = enumerated members + distinct hashes",
        "exhaustive_claim": True,
        "steps": [MAIN, fast()],
        "required_buckets": {"all": ["err:unterminated", "err:empty", "err:14-digits", "13-digit-value", "33-bit-or-more",
                                     "5-bit-boundary", "sign-at-0/1", "value-with-13-digits", "value-with-14-digits",
                                     "table:alphabet-byte"]},
        "assumptions": COMMON_ASSUME + ["third-party vlq 0.5.1 crate is used only to cross-check the reference encoder/decoder"],
    },
    "C19": {
        "level": "exploration",
        "rule": "ordered pairs (base, target) of paths over {a,b,c} up to the stated depth, absolute and relative, enumerated exhaustively, plus random pairs with mixed separators; non-trivial = base directory and target share >= 1 leading component; distinct by hash of the pair",
        "exhaustive_claim": True,
        "steps": [MAIN],
        "required_buckets": {"all": ["climb=0", "climb=1", "climb=2", "remain=0", "remain=1", "remain=2", "remain=3",
                                     "no-shared-prefix", "target-is-base-dir"]},
        "assumptions": COMMON_ASSUME,
    },
}

PROPS.update({
    "C01": {
        "level": "exploration",
        "rule": "random well-formed maps (regular via raw constructor / builder / decoded reference document, Hermes, index maps nested up to 3 deep) driven through write -> read -> observe; non-trivial = map with >= 2 tokens or index with >= 1 section; distinct by hash of the abstract model",
        "steps": [MAIN, asan(scale=5)],
        "required_buckets": {"all": ["built:regular:raw-constructor", "built:regular:builder", "built:regular:decoded", "built:hermes:decoded",
                                     "built:index:constructed", "built:index:decoded", "nested-index", "section-with-url-only",
                                     "map-with-sourceless-token", "map-with-exact-duplicate", "map-with-multi-line-gap", "map-with-root",
                                     "map-with-partial-contents", "map-with-debug-id", "map-with-ignore-list",
                                     "map-with-distinct-tokens-at-one-position", "map-with-unreferenced-source",
                                     "map-with-duplicate-source-strings"]},
        "assumptions": COMMON_ASSUME + ["observational equality is defined through public accessors only (harness/src/observe.rs)"],
    },
    "C02": {
        "level": "exploration",
        "rule": "documents written by the independent encoder from an abstract model plus presentation (segment order, empty lines/segments, arity 1/4/5, key order, optional keys, null sources, integer names, both debug-id spellings, junk header; regular / Hermes / index); non-trivial = at least one non-empty segment or embedded section map; distinct by hash of the document text",
        "steps": [MAIN, asan(scale=5), miri(tiers=("thorough",), nshards=16)],
        "required_buckets": {"all": ["negative-delta:generated-column", "negative-delta:source-index", "negative-delta:original-line",
                                     "negative-delta:original-column", "negative-delta:name-index", "empty-line", "empty-segment",
                                     "arity-1", "arity-4", "arity-5", "key-absent:sources", "key-absent:names", "key-absent:mappings",
                                     "key-absent:file", "both-debug-ids", "only-debugId", "null-source", "integer-name", "junk-header",
                                     "kind:Regular", "kind:Hermes", "kind:Index", "root(plain)xsource(relative)", "root(plain)xsource(absolute)",
                                     "root(slash)xsource(relative)", "root(empty)xsource(relative)", "from_slice-rejects-other-kind", "line-longer-than-4096-bytes"]},
        "assumptions": COMMON_ASSUME,
    },
    "C03": {
        "level": "exploration",
        "rule": "random well-formed maps from every producer (constructors, builder, decoding, rewrite under random options, flatten, adjust_mappings; index maps nested up to 3); serialised output parsed by serde_json and its mappings read by the strict reference decoder; non-trivial = >= 2 tokens (or >= 1 section); distinct by hash of the generating model",
        "steps": [MAIN, asan(scale=5)],
        "required_buckets": {"all": ["producer:rewrite", "producer:flatten", "producer:adjust_mappings", "producer:regular:builder",
                                     "producer:regular:decoded", "producer:regular:raw-constructor", "producer:hermes:decoded",
                                     "producer:index:constructed", "index-with-nested-index", "map-with-every-optional-absent",
                                     "map-with-every-optional-present"]},
        "assumptions": COMMON_ASSUME,
    },
    "C04": {
        "level": "exploration",
        "rule": "maps with heavy position duplication, built in shuffled order by both constructors; query sweep = every token position +-1 column, column 0 / u32::MAX on every line with or without tokens, lines before/after; histories = chains of 1..8 map-producing operations with the invariants re-checked after each; exhaustive sub-space: every insertion sequence of <= 4 tokens on a 2x3 grid x all grid queries; non-trivial = map with >= 2 tokens; distinct by model hash / enumeration",
        "exhaustive_claim": False,  # an exhaustive sub-space plus sampling: see exhaustive_subspaces in the evidence
        "steps": [MAIN, fast(), asan(scale=10)],
        "required_buckets": {"all": ["lookup:exact-hit-on-position-with>=3-copies", "lookup:before-first-token->None", "lookup:from-later-line",
                                     "lookup:u32::MAX-query", "lookup:inexact-hit", "producer:rewrite", "producer:flatten",
                                     "producer:adjust_mappings", "producer:to_writer+decode_slice", "producer:builder",
                                     "producer:SourceMap::new", "empty-map", "single-token-map"]},
        "assumptions": COMMON_ASSUME + ["the oracle is a linear scan over the map's own iteration order"],
    },
    "C06": {
        "level": "fault_enumeration",
        "rule": "well-formed base documents (arrays of size 0..4) x single faults enumerated at every site: arity 2/3/6/7 per segment, continuation bit on the last digit per segment, 14/15/20-digit value per value, source/name index pushed to len, len+1, 2^32-1, -1, -len-1, 2^32+k per reference, one foreign byte at every offset of the mappings string (all byte values possible in UTF-8), plus random 2-3 fault combinations; a faulted string counts only if the strict reference decoder rejects it; distinct by hash of (mappings, array sizes)",
        "steps": [MAIN, asan(scale=10)],
        "required_buckets": {"all": ["fault:arity-2@First", "fault:arity-3@Middle", "fault:arity-6@Last", "fault:arity-7@Only",
                                     "fault:continuation-on-last-digit@Last", "fault:value-with-14-digits@Middle",
                                     "fault:value-with-20-digits@First", "fault:source-index=len:first-use@First",
                                     "fault:source-index=-1:later-use@Middle", "fault:source-index=2^32-1:after-decrease@Middle",
                                     "fault:source-index=2^32+k:later-use@Last", "fault:name-index=len@Last", "fault:name-index=-1@Middle",
                                     "fault:foreign-ascii@segment-start", "fault:foreign-ascii@segment-middle", "fault:foreign-ascii@segment-end",
                                     "fault:foreign-byte>=0x80@segment-middle", "fault:foreign-byte>=0x80@alone-in-segment",
                                     "fault:reference-into-empty-sources", "fault:reference-into-empty-names", "fault:combination"]},
        "assumptions": COMMON_ASSUME + ["byte values 0xC0, 0xC1, 0xF5..0xFF cannot occur in a Rust str / valid JSON string and are not covered"],
    },
    "C07": {
        "level": "exploration",
        "rule": "maps with range flags: every flag subset of every shape with <= 3 lines, <= 6 tokens per line, <= 8 (quick) / 10 (thorough) tokens; explicit shapes (first/last on line, index 15..100, all set, after k duplicates / k same-position tokens, columns near u32::MAX); random maps; each built three ways, serialised, re-read, and swept with lookups on the token's line, after it and from later lines; non-trivial = >= 1 range token; distinct by model hash",
        "exhaustive_claim": False,  # an exhaustive sub-space plus sampling: see exhaustive_subspaces in the evidence
        "steps": [MAIN, fast(scale=50), asan(scale=10),
                  miri(flags="-Zmiri-disable-isolation -Zmiri-tree-borrows", tiers=("thorough",))],
        "required_buckets": {"all": ["range:first-on-line(line>0)", "range:first-on-line(line=0)", "range:last-on-line",
                                     "range:index>=16-with-no-earlier-flag-on-line", "range:exact-duplicate-of-predecessor",
                                     "range:after-distinct-token-at-same-position", "lookup:inside-range-same-line",
                                     "lookup:range-token-from-later-line(col<dst_col)", "lookup:range-token-from-later-line(col>=dst_col)",
                                     "lookup:non-range-token", "built:decoded-reference-document"]},
        "assumptions": COMMON_ASSUME + ["bit i of a line's rangeMappings refers to the i-th mapping written for that line (tc39 proposal)",
                                         "Miri shards run under Tree Borrows because Stacked Borrows flags bitvec 1.1.1 internals (dependency, not the crate)"],
    },
})

PROPS.update({
    "C08": {
        "level": "exploration",
        "rule": "index maps satisfying the statement's precondition (strictly increasing offsets, every section's tokens before the next offset): 1..5 sections, empty sections, sections starting mid-line, two sections on one line, nested indexes (<= 3 deep), Hermes sections, unresolved sections, duplicate source names with different contents, ignore lists; built by SourceMapIndex::new or decoded from a document with shuffled sections; ~110 queries per index; non-trivial = >= 2 sections; distinct by model hash",
        "steps": [MAIN, fast(scale=50), asan(scale=10)],
        "required_buckets": {"all": ["section-starting-mid-line", "two-sections-on-one-line", "nested-index", "hermes-section", "unresolved-section",
                                     "empty-section", "mid-line-section-with-tokens-on-first-and-later-lines", "flatten:unresolved-section->Err",
                                     "flatten:ignored-source-carried", "flatten:range-token-carried", "query:at-section-boundary",
                                     "query:left-of-column-offset-on-shared-line", "query:before-first-section", "query:later-line",
                                     "query:past-the-end", "index-and-flattened-agree", "built:decoded(sections shuffled)"]},
        "assumptions": COMMON_ASSUME,
    },
    "C09": {
        "level": "exploration",
        "rule": "maps with unique per-token tags, duplicate and unreferenced sources/names, a root, partial contents, sources listed in an order different from first use, x 4 option combinations x 16 prefix sets; Hermes maps (one function map per source name) in a quarter of the cases; non-trivial = >= 2 referenced sources; distinct by hash of (model, options)",
        "steps": [MAIN, asan(scale=10)],
        "required_buckets": {"all": ["source-order-differs-from-first-use", "unreferenced-source-with-contents", "two-sources-made-equal-by-stripping",
                                     "hermes-with-shifted-ids", "hermes-with-resolving-scopes", "contents-carried", "map-with-root",
                                     "options:names=false,contents=false", "options:names=true,contents=true", "prefixes:several", "prefixes:tilde",
                                     "prefixes:one-with-slash"]},
        "assumptions": COMMON_ASSUME + ["for the '~' prefix only 'new name is a suffix of the old one at a / boundary' is asserted (the statement does not pin the common prefix down)"],
    },
    "C10": {
        "level": "exploration",
        "rule": "pairs (original map, adjustment map): exhaustive over a 2x4 grid (every subset (quick) / multiset (thorough) of <= 3 original tokens x every set of <= 2 adjustment tokens with any source and destination cell), plus random grids up to 6x30 with up to 25 tokens a side and duplicated positions; non-trivial = at least one non-empty overlap; distinct by enumeration / case hash",
        "exhaustive_claim": False,  # an exhaustive sub-space plus sampling: see exhaustive_subspaces in the evidence
        "steps": [MAIN, fast(scale=30), asan(scale=5)],
        "required_buckets": {"all": ["adjustment-stretch-inside-original(split)", "original-stretch-swallowed", "original-stretch-without-overlap(disjoint)",
                                     "tie-at-stretch-start", "negative-column-displacement", "line-displacement",
                                     "duplicate-position:original-side", "duplicate-position:adjustment-side", "empty-original-map",
                                     "empty-adjustment-map", "original-stretch-split-over-several-adjustments"]},
        "assumptions": COMMON_ASSUME + ["where several tokens share a position, any of them may own the non-empty stretch"],
    },
    "C12": {
        "level": "fault_enumeration",
        "rule": "(document, header, schedule) triples: documents valid of each kind, truncated at every length (small ones), single-byte corruptions; 24 headers (none, each junk byte with LF / CRLF / bare CR, garbage, CR inside, CRCRLF, header only); schedules: 1-byte reads, fixed 2/3/7/8191/8192/8193, a two-chunk boundary at every offset of header + 16 bytes, random short reads, one big read; plus the data URL of every byte string with and without charset parameter; non-trivial = header present or >= 2 chunks; distinct by hash of (bytes, schedule)",
        "steps": [MAIN, asan(scale=10), miri(tiers=("thorough",))],
        "required_buckets": {"all": ["schedule:boundary:inside", "schedule:boundary:before", "schedule:boundary:exactly", "schedule:1", "schedule:fixed",
                                     "schedule:random", "bare-CR-header", "bare-CR-followed-by-junk-start-byte", "header-never-ends", "both-err:truncated", "both-ok:regular",
                                     "both-ok:index", "both-ok:hermes", "header-skipped:classic+CRLF", "header-skipped:classic+LF",
                                     "header-skipped:junk-byte+LF", "data-url:both-ok", "data-url:both-err"]},
        "assumptions": COMMON_ASSUME + ["the chunked reader never returns 0 before the end of the data"],
    },
    "C13": {
        "level": "exploration",
        "rule": "short histories (3..40 builder calls, or 2..25 setter / save+load operations on a map) over string pools with duplicates, empty strings, absolute paths, URLs, roots with and without trailing '/'; a ~60-line sequential interning model is the oracle, checked after every call (returned ids) and after every prefix (map histories); non-trivial = >= 5 operations including a duplicate add or a root change; distinct by history hash",
        "steps": [MAIN, asan(scale=10)],
        "required_buckets": {"all": ["history:builder", "history:map-setters", "map:root-set", "map:root-cleared", "map:root-set-empty",
                                     "map:root-set-then-set_source", "map:reload-with-root", "duplicate-source-re-added-after-other-inserts",
                                     "contents-set-before-later-sources-were-added", "builder:finished-with-root"]},
        "assumptions": COMMON_ASSUME,
    },
    "C14": {
        "level": "exploration",
        "rule": "Hermes documents written by the reference Metro encoder (1..5 sources, function maps with 0..14 entries over several lines, 1/2/3-field segments, null / empty / extra metadata, name indices out of range, unparsable mapping strings), half of the tokens aimed at / next to entries; every token and ~100 bytecode offsets resolved; non-trivial = >= 2 entries and >= 1 token; distinct by model hash",
        "steps": [MAIN, asan(scale=10)],
        "required_buckets": {"all": ["segment-with-1-field(s)", "segment-with-2-field(s)", "segment-with-3-field(s)", "entry-exactly-at-token-position",
                                     "token-before-first-entry->None", "broken-function-map-next-to-a-good-one", "round-trip-checked",
                                     "null-entry", "empty-metadata-array", "extra-metadata-after-the-first", "name-index-out-of-range->None",
                                     "token-resolving-to-a-name", "function-map-with-several-lines", "function-map-entry-beyond-line-4096"]},
        "assumptions": COMMON_ASSUME + ["Metro's format as described in harness/src/reference/metro.rs (column resets per ';', name index and line run over the whole string, lines start at 1)"],
    },
    "C15": {
        "level": "exploration",
        "rule": "every text over {a, e-acute, astral emoji, space, LF, CR} of length 0..6 (quick) / 0..8 (thorough), each under 9 request orders on fresh/cloned views, and every (line, column, span) triple with column, span <= units+2 plus 2^31 and 2^32-1; random longer texts; non-trivial = >= 2 lines or a non-ASCII character; distinct by enumeration / text hash",
        "exhaustive_claim": False,  # an exhaustive sub-space plus sampling: see exhaustive_subspaces in the evidence
        "steps": [MAIN, fast(scale=50), miri(mode="miri"), asan(scale=50), valgrind(mode="valgrind")],
        "required_buckets": {"all": ["terminator:LF-at-start", "terminator:LF-at-end", "terminator:LF-doubled", "terminator:CR-at-start",
                                     "terminator:CR-at-end", "terminator:CR-doubled", "terminator:CRLF-at-start", "terminator:CRLF-at-end",
                                     "terminator:CRLF-doubled", "order:late-line-first", "order:request-after-exhaustion", "order:clone-midway", "order:slices-interleaved",
                                     "slice:astral-char-inside-slice", "slice:line-shorter-than-c+n->None", "slice:extreme-triple",
                                     "slice:column-inside-surrogate-pair(both readings accepted)", "empty-text"]},
        "assumptions": COMMON_ASSUME + ["a column that falls on the second unit of a surrogate pair may or may not include that character (both readings accepted)"],
    },
    "C16": {
        "level": "exploration",
        "rule": "schedules of 2..4 real threads sharing one SourceView, every lock attempt / unlock / atomic operation a yield point: all schedules with <= 3 preemptions (quick) / unbounded (thorough) for every ordered pair of calls on 6 texts (2 threads x 1 call), bounded enumeration for sampled 2x2 and 3x1 scenarios, random schedules for 2x3..4x3; plus free-running rounds of 2..8 threads; non-trivial = schedule with >= 1 preemption (calls genuinely interleaved) or a free-running round; distinct by hash of (scenario, sequence of scheduled worker ids)",
        "exhaustive_claim": False,
        "hang_is_violation": True,
        "steps": [MAIN,
                  miri(mode="miri", nshards=16, flags="-Zmiri-disable-isolation -Zmiri-many-seeds=0..8", tiers=("quick",), timeout=1200),
                  dict(miri(mode="miri", nshards=16, flags="-Zmiri-disable-isolation -Zmiri-many-seeds=0..64", tiers=("thorough",), timeout=20000), name="miri"),
                  {"name": "tsan", "flavour": "tsan", "mode": "stress", "tiers": ("thorough",), "scale": 50}],
        "required_buckets": {"all": ["schedule-with-interleaved-calls", "preempted-at:lock", "preempted-at:atomic-load", "preempted-at:unlocked",
                                     "sampled:4x3", "sampled:3x2", "free-running:8-threads", "free-running:2-threads"]},
        "assumptions": COMMON_ASSUME + ["yield points are the lock/atomic operations of the view (verif_hooks); between two yield points exactly one controlled thread runs",
                                         "native runs see x86-64 memory ordering; Relaxed reorderings are explored only by the Miri shard"],
    },
})

PROPS.update({
    "C17": {
        "level": "exploration",
        "rule": "generated minified programs (1..4 lines; function declarations, calls, var statements, string literals with non-ASCII / astral characters before declarations; names from a closed pool incl. prefixes of one another, non-ASCII, astral, ZWJ, and the word 'function'), maps with tokens on / before / after the declarations, past the end of lines and on missing lines; up to 60 positions x 21 candidate names (9 non-identifiers) per program; 4% long programs with 90..175 tokens between declaration and call site for the 128-token limit; index maps with 1..3 sections on their own lines; non-trivial = program with >= 2 function declarations; distinct by hash of (text, token positions)",
        "steps": [MAIN, miri(mode="miri", nshards=16), asan(scale=10)],
        "required_buckets": {"all": ["resolved-to-a-name", "resolved-on-line-with-non-ascii", "non-ascii-identifier-resolved", "multi-line-program",
                                     "non-identifier-candidate->None", "token-past-end-of-line-or-on-missing-line", "walk:pair-within-limit",
                                     "walk:pair-beyond-limit", "index:resolved-in-first-section", "index-with-section-at-nonzero-offset", "map-with-range-tokens"]},
        "assumptions": COMMON_ASSUME + ["identifier classification over the closed character pool of the generator is hard-coded in the harness (independent of unicode-id-start)",
                                         "'at most 128': a pair within the first 120 walked tokens must be found, none within 136 must give nothing, the band in between is not asserted",
                                         "token columns never point into the middle of a surrogate pair; token positions are unique within a map"],
    },
})

PROPS.update({
    "C05": {
        "level": "exploration",
        "rule": "three layers of untrusted inputs, all with overflow checks on: L1 random bytes; L2 byte-level mutations (flip, insert, delete, splice, truncate, number -> extreme, continuation-digit runs) of every fixture under /repo/tests/fixtures and of generated documents; L3 structure-aware hostile documents (extreme numbers incl. 62-bit VLQ values and negative running sums, wrong types, missing / repeated keys, mismatched array lengths, sections with offsets up to 2^32-1 nested up to 3 (random) and 1..200 (explicit chain), hostile rangeMappings / ignoreList / debug ids / Hermes payloads); every input goes through 17 entry-point calls and, when a map comes back, ~40-100 follow-up actions; non-trivial = input that decodes or is rejected by the crate's own logic (not by the JSON parser); distinct by hash of the bytes",
        "hang_is_violation": True,
        "steps": [MAIN, asan(scale=5),
                  # Tree Borrows: hostile documents carry rangeMappings, and Stacked Borrows flags bitvec 1.1.1
                  # internals on BitVec::resize (dependency code, DESIGN.md section 9)
                  miri(mode="miri", tiers=("thorough",), nshards=16, flags="-Zmiri-disable-isolation -Zmiri-tree-borrows"),
                  {"name": "fuzz", "flavour": "fuzz", "tiers": ("thorough",), "seconds": 600, "forks": 16, "count_distinct": False}],
        "required_buckets": {"all": ["decoded-ok:regular", "decoded-ok:hermes", "decoded-ok:index", "decoded-ok-in:L2", "decoded-ok-in:L3",
                                     "rejected-by-the-crate's-own-logic", "rejected-as-json", "L2:fixture", "L3:extreme-numbers-in-mappings",
                                     "L3:wrong-type-for-a-key", "L3:missing-key", "L3:repeated-key", "L3:mismatched-array-lengths",
                                     "L3:sections-with-extreme-offsets", "L3:deeply-nested-sections", "L3:malformed-hermes-payload",
                                     "L3:hostile-rangeMappings"]},
        "assumptions": COMMON_ASSUME + ["'hanging' = one input using more than 60 s of CPU (inputs are < 100 KB, normal cost < 5 ms)",
                                         "'out of proportion' = peak heap growth above 256 bytes per input byte + 16 MiB, or any single request above 1 GiB",
                                         "serialisation is exercised only while the greatest generated line stays below 100000 (as the property says)"],
    },
    "C18": {
        "level": "exploration",
        "rule": "generated files assembled from code lines, both comment forms, seven look-alike forms (indented, mid-line, missing '=', missing space, block comment, wrong case, sourceURL), empty and padded URLs, LF / CRLF / CR endings, with or without final newline, read from a slice and from a chunked reader; maps of every kind as in C01 for the detection predicate, regular maps for the data-URL round trip and the embedded-comment discovery; non-trivial = text with >= 1 candidate line (or any map); distinct by text / model hash",
        "steps": [MAIN, asan(scale=10), miri(mode="miri", tiers=("thorough",), nshards=16)],
        "required_buckets": {"all": ["found:standard", "found:legacy", "found:nothing", "found:empty-url", "first-of-several-candidates",
                                     "lookalike:indented", "lookalike:mid-line", "lookalike:missing-equals", "lookalike:missing-space",
                                     "lookalike:block-comment", "detected:regular", "detected:index", "detected:hermes",
                                     "data-url-roundtrip+embedded-discovery"]},
        "assumptions": COMMON_ASSUME + ["lines are '\\n'-separated with one trailing '\\r' removed; a lone '\\r' does not end a line"],
    },
    "C20": {
        "level": "fault_enumeration",
        "rule": "indexed RAM bundles written from a model (0..12 table slots, empty slots anywhere, startup code of 1..300 bytes, modules of length 0/1/2..60 incl. non-UTF-8 bytes, shuffled physical order, gaps) and, for each, every truncation length, every 32-bit header/table field set to each of {0, 1, len-1, len, len+1, 2^31, 2^32-2, 2^32-1}, every magic byte altered, zero length with non-zero offset; plus random byte strings with and without the magic; non-trivial = bundle with >= 1 present module or any corruption; distinct by hash of the bytes",
        "steps": [MAIN, miri(mode="miri", nshards=16), asan(scale=20), valgrind(mode="valgrind")],
        "required_buckets": {"all": ["empty-slot-first", "empty-slot-last", "module-of-length-1", "non-utf8-module", "modules-in-shuffled-physical-order",
                                     "module-at-the-very-end-of-the-buffer", "corruption:truncated-inside-header", "corruption:truncated-inside-table",
                                     "corruption:truncated-inside-startup", "corruption:truncated-inside-module", "corruption:magic-byte-altered",
                                     "corruption:module-count=near-2^32", "corruption:entry-offset=near-2^32", "corruption:entry-length=near-2^32",
                                     "corruption:entry-offset=around-buffer-length", "corruption:zero-length-with-nonzero-offset",
                                     "refused:id-past-table", "refused:module-entry-out-of-range", "refused:startup-code-out-of-range",
                                     "refused:not-a-bundle"]},
        "assumptions": COMMON_ASSUME + ["a zero-length read positioned exactly at the end of the buffer may yield an empty slice or an error",
                                         "only indexed (single-file) bundles; the file-system 'unbundle' variant is outside the property"],
    },
})
