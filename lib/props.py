"""Per-property configuration of the check driver.

steps: executed in order; each names a build flavour, a monitor mode, shard count and workload
scale. A step with flavour 'checked' is the deciding run (overflow checks + debug assertions on);
sanitizer steps repeat a scaled-down workload under one sanitizer family each.
"""

MAIN = {"name": "main", "flavour": "checked"}


def fast(scale=100, tiers=("thorough",)):
    return {"name": "fast", "flavour": "fast", "scale": scale, "tiers": tiers, "count_distinct": False}


def asan(scale=10, tiers=("thorough",)):
    return {"name": "asan", "flavour": "asan", "scale": scale, "tiers": tiers}


def miri(mode="miri", nshards=16, tiers=("quick", "thorough"), flags="-Zmiri-disable-isolation", scale=100, timeout=3000):
    return {"name": "miri", "flavour": "miri", "mode": mode, "nshards": nshards, "tiers": tiers,
            "miriflags": flags, "scale": scale, "timeout": timeout}


def valgrind(mode="valgrind", nshards=16, scale=100, tiers=("thorough",)):
    return {"name": "valgrind", "flavour": "plain", "valgrind": True, "mode": mode, "nshards": nshards,
            "scale": scale, "tiers": tiers}


COMMON_ASSUME = [
    "rustc/std and serde_json behave as documented",
    "the independent references in /verif/harness/src/reference are correct (each is self-checked at start-up)",
    "verdict covers only the executions produced by this run",
]

PROPS = {
    "C11": {
        "level": "exploration",
        "rule": "integers: every value of the enumerated window as a singleton list (distinct by construction, non-trivial when |v| >= 16, i.e. needs >= 2 digits), plus hashed random lists/strings; strings: every base64 string up to the stated length (non-trivial when length >= 2) plus hashed random longer ones; distinct = enumerated members + distinct hashes",
        "exhaustive_claim": True,
        "steps": [MAIN, fast()],
        "required_buckets": {"all": ["err:unterminated", "err:empty", "err:14-digits", "13-digit-value", "33-bit-or-more",
                                     "5-bit-boundary", "sign-at-0/1", "value-with-13-digits", "value-with-14-digits",
                                     "table:alphabet-byte"]},
        "assumptions": COMMON_ASSUME + ["third-party vlq 0.5.1 crate is used only to cross-check the reference encoder/decoder"],
    },
    "C19": {
        "level": "exploration",
        "rule": "ordered pairs (base, target) of paths over {a,b,c} up to the stated depth, absolute and relative, enumerated exhaustively, plus random pairs with mixed separators; non-trivial = base directory and target share >= 1 leading component; distinct by hash of the pair",
        "exhaustive_claim": True,
        "steps": [MAIN],
        "required_buckets": {"all": ["climb=0", "climb=1", "climb=2", "remain=0", "remain=1", "remain=2", "remain=3",
                                     "no-shared-prefix", "target-is-base-dir"]},
        "assumptions": COMMON_ASSUME,
    },
}
