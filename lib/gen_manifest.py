#!/usr/bin/env python3
"""Writes /verif/MANIFEST.json from lib/props.py (+ lib/manifest_text.py for the prose)."""
import json
import os
import subprocess
import sys

ROOT = os.path.dirname(os.path.dirname(os.path.abspath(__file__)))
sys.path.insert(0, os.path.join(ROOT, "lib"))
from props import PROPS  # noqa: E402
from manifest_text import TEXT, NOT_APPLICABLE  # noqa: E402

ALL = [json.loads(l)["id"] for l in open(os.path.join(ROOT, "properties.jsonl"))]

hook_commits = subprocess.run(["git", "-C", "/repo", "log", "--format=%H %s"], stdout=subprocess.PIPE, text=True).stdout
hook_commits = [l.split()[0] for l in hook_commits.splitlines() if "verif_hooks" in l]

checks = []
for pid in ALL:
    if pid not in PROPS:
        continue
    t = TEXT[pid]
    checks.append({
        "property_id": pid,
        "quick_cmd": f"./check {pid} quick",
        "thorough_cmd": f"./check {pid} thorough",
        "evidence_file": f"/verif/evidence/{pid}.json",
        "replay_cmd_template": f"./check {pid} --replay {{path}}",
        "engine": "smv",
        "level_claimed": {"category": PROPS[pid]["level"], "text": t["level_text"], "design_ref": t["design_ref"]},
        "level_note": t["level_note"],
        "technique": t["technique"],
    })

na = [{"property_id": p, "reason": NOT_APPLICABLE.get(p, "monitor not built yet (work in progress); no claim is made")}
      for p in ALL if p not in PROPS]

manifest = {
    "version": 1,
    "setup_cmd": "./check --build",
    "hooks": {
        "guard": "cargo feature `verif_hooks` of the sourcemap crate (off by default)",
        "enable": "the harness crate /verif/harness depends on sourcemap by path (/repo) with features = [\"ram_bundle\", \"verif_hooks\"]; every check runs `cargo build` there first, so it rebuilds from /repo's working tree",
        "baseline_off_cmd": "cd /repo && cargo test --workspace --no-fail-fast --offline",
        "source_commits": hook_commits,
        "add_only": True,
    },
    "engines": [{
        "name": "smv",
        "path": "/verif/harness",
        "serves_properties": [c["property_id"] for c in checks],
        "kind_free_text": "Rust monitor binary (one sub-command per property) linking the real crate; driven by /verif/check (python3) which builds the flavours (checked = overflow checks + debug assertions, fast, ASan, TSan, Miri, valgrind), shards the workload over 16 processes, merges event counts, applies KNOWN_FINDINGS.txt and writes the evidence file",
    }],
    "checks": checks,
    "not_applicable": na,
    "notes": "Runtime monitoring only: every verdict is 'held on the executions produced by this run'. Exit 2 + an INCONCLUSIVE line (never a VIOLATION line) is used when a tool or a required coverage bucket is missing.",
}
json.dump(manifest, open(os.path.join(ROOT, "MANIFEST.json"), "w"), indent=1)
print(f"{len(checks)} checks, {len(na)} not claimed")
