#!/usr/bin/env python3
"""Validates MANIFEST.json and every evidence/*.json against the schemas (tooling venv python)."""
import glob, json, sys
import jsonschema
ok = True
m = json.load(open('/verif/MANIFEST.json'))
jsonschema.validate(m, json.load(open('/root/.vp/MANIFEST.schema.json')))
print("MANIFEST.json valid:", len(m["checks"]), "checks")
es = json.load(open('/root/.vp/EVIDENCE.schema.json'))
for f in sorted(glob.glob('/verif/evidence/*.json')):
    try:
        jsonschema.validate(json.load(open(f)), es)
        print("valid:", f)
    except Exception as e:
        ok = False
        print("INVALID:", f, str(e)[:300])
sys.exit(0 if ok else 1)
