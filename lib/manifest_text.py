"""Prose for MANIFEST.json, per property."""

NOT_APPLICABLE = {}

TEXT = {
    "C11": {
        "technique": "runtime differential monitor: real vlq encoder/decoder vs independent reference over exhaustive integer windows and exhaustive short base64 strings (overflow checks on)",
        "level_text": "exploration with exhaustive sub-spaces: every integer of a contiguous window (quick +-2^25, thorough all of +-(2^32-1), i.e. every difference of two u32) is encoded by the crate, compared byte-for-byte with a reference encoder written from the spec, and decoded back; every base64 string up to length 4 (quick) / 5 (thorough) and random longer ones are decoded by the crate and by a strict reference decoder and must agree on values, unterminated, empty and >13-digit errors. Outside the enumerated windows the claim is sampled.",
        "design_ref": "DESIGN.md section 5, C11",
        "level_note": "trusted: the reference VLQ codec (cross-checked at start-up against the third-party vlq 0.5.1 crate on 20000 values), rustc/std. 13-digit values of magnitude >= 2^62 are outside the statement and only required not to panic.",
    },
    "C19": {
        "technique": "runtime monitor with reference path resolver over all path pairs up to depth 5/6 plus random pairs",
        "level_text": "exploration with an exhaustive sub-space: every ordered pair of 1..5 (quick) / 1..6 (thorough) component paths over a 3-name pool, as absolute and as relative paths, plus random pairs with mixed '/' and '\\\\' separators; the returned path is resolved component-wise against the base file's directory and must equal the target.",
        "design_ref": "DESIGN.md section 5, C19",
        "level_note": "trusted: the 20-line reference resolver ('..' pops, '.'/empty skipped). Only ordinary components (no '.' or '..' in the inputs), both paths absolute or both relative.",
    },
}
