"""Prose for MANIFEST.json, per property."""

NOT_APPLICABLE = {}

TEXT = {
    "C11": {
        "technique": "runtime differential monitor: real vlq encoder/decoder vs independent reference over exhaustive integer windows and exhaustive short base64 strings (overflow checks on)",
        "level_text": "exploration with exhaustive sub-spaces: every integer of a contiguous window (quick +-2^25, thorough all of +-(2^32-1), i.e. every difference of two u32) is encoded by the crate, compared byte-for-byte with a reference encoder written from the spec, and decoded back; every base64 string up to length 4 (quick) / 5 (thorough) and random longer ones are decoded by the crate and by a strict reference decoder and must agree on values, unterminated, empty and >13-digit errors. Outside the enumerated windows the claim is sampled.",
        "design_ref": "DESIGN.md section 5, C11",
        "level_note": "trusted: the reference VLQ codec (cross-checked at start-up against the third-party vlq 0.5.1 crate on 20000 values), rustc/std. 13-digit values of magnitude >= 2^62 are outside the statement and only required not to panic.",
    },
    "C19": {
        "technique": "runtime monitor with reference path resolver over all path pairs up to depth 5/6 plus random pairs",
        "level_text": "exploration with an exhaustive sub-space: every ordered pair of 1..5 (quick) / 1..6 (thorough) component paths over a 3-name pool, as absolute and as relative paths, plus random pairs with mixed '/' and '\\\\' separators; the returned path is resolved component-wise against the base file's directory and must equal the target.",
        "design_ref": "DESIGN.md section 5, C19",
        "level_note": "trusted: the 20-line reference resolver ('..' pops, '.'/empty skipped). Only ordinary components (no '.' or '..' in the inputs), both paths absolute or both relative.",
    },
    "C01": {
        "technique": "runtime round-trip monitor: real encoder+decoder driven on generated maps, observation equality through public accessors, byte idempotence; ASan repeat",
        "level_text": "exploration: 150k (quick) / 6M (thorough) random well-formed maps of every kind and construction route are written and read back; the two maps are compared through public accessors exactly as the statement lists (token sequence modulo exact consecutive duplicates, sources, names, contents, file, root, debug id, ignore list, section offsets/URLs, Hermes scopes), and ser(dec(ser(d))) == ser(d) bytewise for decoded d. A symmetric encoder/decoder error is invisible here by construction (C02/C03 cover it).",
        "design_ref": "DESIGN.md section 5, C01",
        "level_note": "trusted: harness/src/observe.rs (public accessors only), generators; no reference model is involved. Generated lines stay small (the format spends a byte per line).",
    },
    "C02": {
        "technique": "runtime differential monitor: independent v3 writer (own VLQ, cross-checked against the vlq crate) -> real decoder, decoded map compared with the abstract model",
        "level_text": "exploration: 200k (quick) / 8M (thorough) documents produced from an abstract mapping model plus presentation by an encoder that shares no code with the crate are decoded through decode_slice, decode(reader) and SourceMap::from_slice; the model is the expected result (positions, running source/line/column/name state, arity, kind dispatch, null sources, integer names, debug_id precedence, sourceRoot join rule). Equal positions are compared as multisets.",
        "design_ref": "DESIGN.md section 5, C02",
        "level_note": "trusted: reference VLQ/mappings/Metro writers (self-checked and cross-checked at start-up), serde_json string escaping. Only features the statement fixes are generated (no float names, no document with both dispatch keys).",
    },
    "C03": {
        "technique": "runtime monitor: real encoder output parsed by serde_json and read by a strict independent mappings decoder, compared field by field with the map's accessors",
        "level_text": "exploration: maps from every producer (constructors, builder, decode, rewrite with random options, flatten, adjust_mappings, nested indexes) are serialised; the output must be a JSON object with version 3 whose mappings the strict reference decoder reads back as the map's own (position, source index, original position, name index) list, whose sources/sourceRoot join to get_source(i), and whose optional keys are absent rather than null; recursively for index sections and their offsets.",
        "design_ref": "DESIGN.md section 5, C03",
        "level_note": "trusted: reference mappings decoder, serde_json as JSON reader. Key order and whitespace are not asserted.",
    },
    "C04": {
        "technique": "runtime monitor with linear-scan reference lookup and ordering invariants checked after every operation of random operation chains; exhaustive small grid",
        "level_text": "exploration with an exhaustive sub-space: all insertion sequences of <= 4 tokens on a 2x3 grid x all grid queries (both constructors); 60k/3M random maps with up to 85% duplicated positions x a query sweep incl. u32::MAX; 8k/300k histories of 1..8 producing operations (rewrite, write+read, flatten, adjust_mappings, builder copy) with ordering, get_token/get_token_count agreement and the lookup sweep re-checked at every quiescent point.",
        "design_ref": "DESIGN.md section 5, C04",
        "level_note": "trusted: 15-line reference scan over the map's own iteration order. No range tokens here (C07).",
    },
    "C06": {
        "technique": "fault injection into well-formed mappings strings at every site, strict reference decoder as filter, real decoder must return Err; plus index-resolution invariant on every Ok decode",
        "level_text": "fault enumeration: for each of 3k (quick) / 250k (thorough) well-formed bases every applicable single fault of the classes named in the statement is injected at every site (each segment, each value, each index reference, each byte offset), then random combinations; the crate must reject every string the strict reference rejects, parse_vlq_segment must reject VLQ-level faults, and no accepted map may hold an unresolvable index.",
        "design_ref": "DESIGN.md section 5, C06",
        "level_note": "trusted: strict reference decoder. Which error variant is returned is not asserted. Negative generated columns are not in the statement's list and not asserted.",
    },
    "C07": {
        "technique": "runtime monitor: reference rangeMappings bitfield codec + reference lookup with the range-offset rule, over exhaustive flag subsets of small shapes, explicit edge shapes and random maps; Miri (Tree Borrows) and ASan repeats",
        "level_text": "exploration with exhaustive sub-spaces: every assignment of the range flag over every shape with <= 3 lines / <= 6 tokens per line / <= 8-10 tokens, explicit shapes for first/last-on-line, bit index 15..100, duplicates before the flagged token, and random maps; checks (a) rangeMappings text decoded by the reference codec equals the flags of the written tokens, (b) write+read preserves is_range, (c) reference-encoded documents decode to the model's flags, (d) every lookup reports src_col + distance only for a range token hit on its own line, never panics.",
        "design_ref": "DESIGN.md section 5, C07",
        "level_note": "trusted: reference bitfield codec (checked against the crate's own three unit-test vectors), reference lookup. Offsets that would exceed u32 are only required not to panic.",
    },
}
