"""Prose for MANIFEST.json, per property."""

NOT_APPLICABLE = {}

TEXT = {
    "C11": {
        "technique": "runtime differential monitor: real vlq encoder/decoder vs independent reference over exhaustive integer windows and exhaustive short base64 strings (overflow checks on)",
        "level_text": "exploration with exhaustive sub-spaces: every integer of a contiguous window (quick +-2^25, thorough all of +-(2^32-1), i.e. every difference of two u32) is encoded by the crate, compared byte-for-byte with a reference encoder written from the spec, and decoded back; every base64 string up to length 4 (quick) / 5 (thorough) and random longer ones are decoded by the crate and by a strict reference decoder and must agree on values, unterminated, empty and >13-digit errors. Outside the enumerated windows the claim is sampled.",
        "design_ref": "DESIGN.md section 5, C11",
        "level_note": "trusted: the reference VLQ codec (cross-checked at start-up against the third-party vlq 0.5.1 crate on 20000 values), rustc/std. 13-digit values of magnitude >= 2^62 are outside the statement and only required not to panic.",
    },
    "C19": {
        "technique": "runtime monitor with reference path resolver over all path pairs up to depth 5/6 plus random pairs",
        "level_text": "exploration with an exhaustive sub-space: every ordered pair of 1..5 (quick) / 1..6 (thorough) component paths over a 3-name pool, as absolute and as relative paths, plus random pairs with mixed '/' and '\\\\' separators; the returned path is resolved component-wise against the base file's directory and must equal the target.",
        "design_ref": "DESIGN.md section 5, C19",
        "level_note": "trusted: the 20-line reference resolver ('..' pops, '.'/empty skipped). Only ordinary components (no '.' or '..' in the inputs), both paths absolute or both relative.",
    },
    "C01": {
        "technique": "runtime round-trip monitor: real encoder+decoder driven on generated maps, observation equality through public accessors, byte idempotence; ASan repeat",
        "level_text": "exploration: 600k (quick) / 6M (thorough) random well-formed maps of every kind and construction route are written and read back; the two maps are compared through public accessors exactly as the statement lists (token sequence modulo exact consecutive duplicates, sources, names, contents, file, root, debug id, ignore list, section offsets/URLs, Hermes scopes), and ser(dec(ser(d))) == ser(d) bytewise for decoded d. A symmetric encoder/decoder error is invisible here by construction (C02/C03 cover it).",
        "design_ref": "DESIGN.md section 5, C01",
        "level_note": "trusted: harness/src/observe.rs (public accessors only), generators; no reference model is involved. Generated lines stay small (the format spends a byte per line).",
    },
    "C02": {
        "technique": "runtime differential monitor: independent v3 writer (own VLQ, cross-checked against the vlq crate) -> real decoder, decoded map compared with the abstract model",
        "level_text": "exploration: 1M (quick) / 8M (thorough) documents produced from an abstract mapping model plus presentation by an encoder that shares no code with the crate are decoded through decode_slice, decode(reader) and SourceMap::from_slice; the model is the expected result (positions, running source/line/column/name state, arity, kind dispatch, null sources, integer names, debug_id precedence, sourceRoot join rule). Equal positions are compared as multisets.",
        "design_ref": "DESIGN.md section 5, C02",
        "level_note": "trusted: reference VLQ/mappings/Metro writers (self-checked and cross-checked at start-up), serde_json string escaping. Only features the statement fixes are generated (no float names, no document with both dispatch keys).",
    },
    "C03": {
        "technique": "runtime monitor: real encoder output parsed by serde_json and read by a strict independent mappings decoder, compared field by field with the map's accessors",
        "level_text": "exploration: maps from every producer (constructors, builder, decode, rewrite with random options, flatten, adjust_mappings, nested indexes) are serialised; the output must be a JSON object with version 3 whose mappings the strict reference decoder reads back as the map's own (position, source index, original position, name index) list, whose sources/sourceRoot join to get_source(i), and whose optional keys are absent rather than null; recursively for index sections and their offsets.",
        "design_ref": "DESIGN.md section 5, C03",
        "level_note": "trusted: reference mappings decoder, serde_json as JSON reader. Key order and whitespace are not asserted.",
    },
    "C04": {
        "technique": "runtime monitor with linear-scan reference lookup and ordering invariants checked after every operation of random operation chains; exhaustive small grid",
        "level_text": "exploration with an exhaustive sub-space: all insertion sequences of <= 4 tokens on a 2x3 grid x all grid queries (both constructors); 1.2M/8M random maps with up to 85% duplicated positions x a query sweep incl. u32::MAX; 160k/1.5M histories of 1..8 producing operations (rewrite, write+read, flatten, adjust_mappings, builder copy) with ordering, get_token/get_token_count agreement and the lookup sweep re-checked at every quiescent point.",
        "design_ref": "DESIGN.md section 5, C04",
        "level_note": "trusted: 15-line reference scan over the map's own iteration order. No range tokens here (C07).",
    },
    "C06": {
        "technique": "fault injection into well-formed mappings strings at every site, strict reference decoder as filter, real decoder must return Err; plus index-resolution invariant on every Ok decode",
        "level_text": "fault enumeration: for each of 120k (quick) / 1M (thorough) well-formed bases every applicable single fault of the classes named in the statement is injected at every site (each segment, each value, each index reference, each byte offset), then random combinations; the crate must reject every string the strict reference rejects, parse_vlq_segment must reject VLQ-level faults, and no accepted map may hold an unresolvable index.",
        "design_ref": "DESIGN.md section 5, C06",
        "level_note": "trusted: strict reference decoder. Which error variant is returned is not asserted. Negative generated columns are not in the statement's list and not asserted.",
    },
    "C07": {
        "technique": "runtime monitor: reference rangeMappings bitfield codec + reference lookup with the range-offset rule, over exhaustive flag subsets of small shapes, explicit edge shapes and random maps; Miri (Tree Borrows) and ASan repeats",
        "level_text": "exploration with exhaustive sub-spaces: every assignment of the range flag over every shape with <= 3 lines / <= 6 tokens per line / <= 8-10 tokens, explicit shapes for first/last-on-line, bit index 15..100, duplicates before the flagged token, and random maps; checks (a) rangeMappings text decoded by the reference codec equals the flags of the written tokens, (b) write+read preserves is_range, (c) reference-encoded documents decode to the model's flags, (d) every lookup reports src_col + distance only for a range token hit on its own line, never panics.",
        "design_ref": "DESIGN.md section 5, C07",
        "level_note": "trusted: reference bitfield codec (checked against the crate's own three unit-test vectors), reference lookup. Offsets that would exceed u32 are only required not to panic.",
    },
    "C08": {
        "technique": "runtime monitor: reference flatten and reference section lookup (model level) vs SourceMapIndex::flatten / lookup_token, plus index-vs-flattened differential, on generated index maps inside the statement's precondition",
        "level_text": "exploration: 120k (quick) / 3M (thorough) index maps inside the precondition; flatten() must equal the reference flatten as a multiset per position (line shift always, column shift on a section's first line only, names/range flags kept, recursion through nested indexes, Hermes sections), first-seen contents and ignore membership per source name, Err exactly when a section is unresolved; index lookups must equal the reference lookup in the section with the greatest offset not after the position, and agree with the flattened map wherever they find a token.",
        "design_ref": "DESIGN.md section 5, C08",
        "level_note": "trusted: model-level reference flatten/lookup (harness/src/props/c08.rs). Offsets near 2^32 are C05's business, not asserted here.",
    },
    "C09": {
        "technique": 'runtime monitor: token-by-token comparison before/after rewrite through public accessors over generated maps x option sets; Hermes scopes compared per token',
        "level_text": 'exploration: 1.5M / 8M (map, options) pairs; after rewrite the token multiset (position, stripped source name, original position, name or none, range flag, Hermes scope) must equal the expected one, sources/names must contain nothing unreferenced and no unexcused duplicates, contents must follow the source names exactly when kept, file and debug id preserved.',
        "design_ref": "DESIGN.md section 5, C09",
        "level_note": "trusted: the prefix rule as documented (first matching prefix, normalised to end in '/'). '~' is only checked as 'suffix at a / boundary'. Hermes inputs have pairwise distinct joined source names.",
    },
    "C10": {
        "technique": "runtime monitor: interval-composition reference (all admissible owner choices) vs adjust_mappings, exhaustive over a 2x4 grid and random beyond; a second 'relaxed' reference recognises exactly the one known deviation",
        "level_text": "exploration with an exhaustive sub-space: every subset/multiset of <= 3 original tokens x every set of <= 2 adjustment tokens over a 2x4 grid, then random medium grids with duplicated positions; the result must equal one token per non-empty overlap (any owner among tokens sharing a position), carry the original payload unchanged, be ordered, and leave sources/names/contents untouched. KNOWN FINDING (see KNOWN_FINDINGS.txt): extra tokens for empty stretches strictly inside the other side's stretch; recognised by an exact relaxed reference, everything else is a violation.",
        "design_ref": "DESIGN.md section 5, C10",
        "level_note": 'trusted: the reference composition in harness/src/props/c10.rs. Cases with more than 64 owner combinations are skipped and counted.',
    },
    "C12": {
        "technique": 'differential runtime monitor with fault enumeration: decode(reader under an enumerated chunk schedule) vs decode_slice vs decode_data_url on valid, truncated and corrupted documents behind enumerated junk headers; reference header rule arbitrates',
        "level_text": 'fault enumeration: for 8k (quick) / 120k (thorough) base documents every header of a 27-entry catalogue and every schedule of the catalogue (incl. a two-chunk boundary at every offset across the header and the first 16 bytes) is applied to the intact document, samples of them to every truncation (every length for small documents) and to single-byte corruptions; outcomes (Err, or Ok with equal observation) must agree between reader and slice, is_sourcemap between reader and slice, a well-formed header must be skipped, a bare CR rejected on both paths, and the base64 data URL (with and without charset parameter) must decode like its payload.',
        "design_ref": "DESIGN.md section 5, C12",
        "level_note": "trusted: the 15-line reference header rule, own base64 writer, observation equality. serde_json's reader and slice front ends are part of the system under test here.",
    },
    "C13": {
        "technique": 'runtime model-based monitor: ~60-line sequential interning/join model checked against builder return values and the finished map, and against a map after every prefix of setter / save+load histories',
        "level_text": 'exploration over histories: 1.6M (quick) / 8M (thorough) short histories; builder ids must be first-seen ids, every added token must resolve to the strings it was added with (joined with the root), the finished map must report what was set; on maps, after every operation get_source(i) must equal the raw name joined with the current root, the serialised document must carry raw names + root, and repeated save/load must not prefix twice.',
        "design_ref": "DESIGN.md section 5, C13",
        "level_note": 'trusted: the sequential model. Only in-range ids are passed to id-taking calls (out-of-range ids panic by documented contract).',
    },
    "C14": {
        "technique": 'runtime monitor: reference Metro function-map encoder + reference enclosing-function lookup vs get_scope_for_token / get_original_function_name on generated Hermes documents, incl. broken function maps and a write+read cycle',
        "level_text": "exploration: 800k (quick) / 6M (thorough) Hermes documents; every token's scope and ~100 bytecode offsets per map must equal the reference reading (last entry at or before (line+1, column)), nothing for sources without / with unparsable function maps or positions before all entries or name indices out of range, nothing for line != 0 through DecodedMap, decode must succeed although a function map is unparsable, and all answers must survive to_writer + decode.",
        "design_ref": "DESIGN.md section 5, C14",
        "level_note": 'trusted: harness/src/reference/metro.rs (self-checked by round trip).',
    },
    "C15": {
        "technique": 'runtime monitor with reference splitter and UTF-16 slicer over all texts up to length 6/8 of a 6-symbol alphabet under 9 access orders; Miri (Stacked Borrows) shard on the lifetime-extended slices, ASan, valgrind',
        "level_text": "exploration with an exhaustive sub-space: all 56k (quick) / 2M (thorough) texts over {a, e-acute, emoji, space, LF, CR}; per text 9 request orders (ascending, descending, late line first, counts before/after/between, lines() interleaved, clone midway, requests after exhaustion, random) on fresh views and every (line, column, span) triple incl. 2^31 and 2^32-1; a Miri shard runs the same monitor on all texts up to length 3 because get_line builds &'static str from raw parts.",
        "design_ref": "DESIGN.md section 5, C15",
        "level_note": 'trusted: reference splitter / slicer (30 lines). Mid-surrogate columns accept both readings.',
    },
    "C16": {
        "technique": 'runtime schedule control: real threads on the real SourceView, interleaved at every lock/atomic operation through the verif_hooks wrappers (DFS with preemption bound + random schedules), free-running stress, Miri many-seeds and TSan; oracle = sequential answers, no panic, no deadlock, no livelock under a fair schedule (logical step bound), view usable afterwards',
        "level_text": "exploration over schedules: 2 threads x 1 call for every pair of calls on 6 texts with all schedules of <= 3 preemptions (quick) / all schedules up to a cap of 20000 per scenario (thorough); sampled 2x2 and 3x1 scenarios with bounded enumeration; random schedules for up to 4 threads x 3 calls; free-running rounds of 2..8 threads; a Miri shard (8 seeds x 16 shards quick, 64 seeds thorough, weak-memory emulation, data-race detection, Stacked Borrows on the shared 'static slices) and a TSan build (thorough). Every call must return the reference answer, nothing may panic or deadlock, and a probe caller must get correct answers afterwards. Evidence records schedules executed, distinct schedules, distinct yield-point vectors and where preemptions happened.",
        "design_ref": "DESIGN.md section 5, C16",
        "level_note": 'trusted: the controller (harness/src/sched.rs) and the hook wrappers in the crate (they delegate to the real std Mutex/AtomicUsize). A schedule is decided by logical steps (deadlock = no runnable worker; livelock = 20000 yield points under a fair continuation that hands over from a spin-waiting worker to the least recently scheduled one); wall-clock guards (60 s no progress, 120 s free-running round) only ever give INCONCLUSIVE. Validated against correct alternative implementations (selftest/controls) as well as against breaking changes.',
    },
    "C17": {
        "technique": "runtime monitor: reference reverse-walk resolver with hard-coded identifier tables vs get_original_function_name on SourceMap / single-section index / DecodedMap over generated minified programs; second reference recognises the one known deviation for index sections; Miri + ASan repeats",
        "level_text": "exploration: 40k (quick) / 1.5M (thorough) generated programs x up to 60 positions x 21 candidate names; the crate's answer must equal the reference walk (identifier prefix of the first whitespace-delimited word at the token's UTF-16 column; first token equal to the name whose predecessor is 'function' gives its original name; nothing for non-identifiers), must never panic, and the same map as the only section (0,0) of an index must answer identically. Index maps with sections at non-zero offsets are checked against the same reference applied inside the section. KNOWN FINDING: index sections with non-zero offset are read at section-relative coordinates (recognised exactly by a deviant reference).",
        "design_ref": "DESIGN.md section 5, C17",
        "level_note": "trusted: reference resolver and identifier tables in harness/src/props/c17.rs.",
    },
    "C05": {
        "technique": "runtime crash/hang/allocation monitor: panic hook with overflow checks on, per-input CPU-time watchdog, counting global allocator, 'serialised form decodes again' oracle, over random, mutated-fixture and structure-aware hostile inputs; ASan and Miri repeats; libFuzzer+ASan target in /verif/fuzz for deeper exploration",
        "level_text": 'exploration: 240k (quick) / 16M (thorough) inputs in three layers; each input is pushed through every decoding and detection entry point (slice and dribbling reader) and, whenever a map comes back, through iteration, formatting, lookups at token positions +-1 and extremes, every accessor at {0, n-1, n, n+1, 2^31, 2^32-1}, SourceView queries, function-name resolution against six minified texts, Hermes scope lookups, 16 in-memory rewrite option sets, flatten / flatten_and_rewrite with the same follow-ups, and serialise + decode. Any panic (incl. arithmetic overflow), abort, > 60 s CPU for one input, heap growth above 256 B/byte + 16 MiB or a serialised form that does not decode is a violation.',
        "design_ref": "DESIGN.md section 5, C05",
        "level_note": "trusted: the monitor's own instrumentation (panic hook, /proc CPU accounting, counting allocator). A clean run says nothing about inputs that were not produced; the >= 5% Ok-decode rate is enforced through required buckets.",
    },
    "C18": {
        "technique": 'runtime monitor: reference line scanner vs locate_sourcemap_reference(_slice) on generated files (slice and chunked reader); own data URLs decoded back and rediscovered from an embedded comment; detection predicate on every serialised map kind',
        "level_text": 'exploration: 3M (quick) / 20M (thorough) generated files and 300k / 3M maps; discovery must return the first line that begins with one of the two markers with the URL trimmed and the legacy flag right, nothing for look-alikes; for every regular map decode_data_url(to_data_url(m)) must be Ok and observation-equal to m, also after being embedded in a //# sourceMappingURL comment, located and loaded through get_embedded_sourcemap; is_sourcemap_slice must accept every serialised regular, index and Hermes map.',
        "design_ref": "DESIGN.md section 5, C18",
        "level_note": 'trusted: 10-line reference scanner; observation equality as in C01.',
    },
    "C20": {
        "technique": 'fault injection + total reference parser: model-written bundles, every truncation and extreme field value enumerated, crate vs reference on recognition, counts, startup code, every module id, iterator; returned slices pointer-checked against the buffer; Miri, ASan and valgrind repeats on exact-size heap buffers',
        "level_text": 'fault enumeration: 3k (quick) / 200k (thorough) model bundles, each with all of its truncations (every length), 8 extreme values in every 32-bit field, altered magic bytes and zero-length/non-zero-offset entries (~400 corruptions per bundle), plus random byte strings; the crate must agree with a total reference parser on recognition (complete 12-byte header + magic), module_count, startup_code, get_module for every id and a few past the table, and iter_modules; errors instead of panics; every returned slice must lie inside the input buffer (checked by address), and the memory-safety tools (Miri quick, ASan + valgrind thorough) watch the same executions.',
        "design_ref": "DESIGN.md section 5, C20",
        "level_note": "trusted: the independent bundle writer and total parser in harness/src/props/c20.rs (the writer's output is read back by the parser on every case).",
    },
}
